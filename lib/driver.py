"""Driver for the /verif checks: runs TLC on a specification, streams the
behaviours it emits into the Rust harness (binding A), validates traces the
harness recorded against a trace specification (binding B), matches known
findings, writes the evidence file and sets the exit status.

exit 0  property held on everything explored (KNOWN-FINDING lines allowed)
exit 1  VIOLATION property=<id> replay=<path>
exit 2  tool error / tooling time-out (never a violation)
"""
import json, os, re, subprocess, sys, threading, time, shutil, hashlib, glob

VERIF = os.path.dirname(os.path.dirname(os.path.abspath(__file__)))
SPEC = os.path.join(VERIF, "spec")
WORK = os.path.join(VERIF, ".work")
HARNESS_DIR = os.path.join(VERIF, "harness")
HARNESS = os.path.join(HARNESS_DIR, "target", "debug", "verif-harness")
PFX = '<<"REPLAY", "'
SFX = '">>'
_unesc = re.compile(r'\\(.)')


class ToolError(Exception):
    pass


def log(*a):
    print(*a, flush=True)


def build_harness():
    lock_src = "/repo/Cargo.lock"
    lock_dst = os.path.join(HARNESS_DIR, "Cargo.lock")
    if not os.path.exists(lock_dst):
        shutil.copy(lock_src, lock_dst)
    env = dict(os.environ, CARGO_NET_OFFLINE="true",
               CARGO_TARGET_DIR=os.path.join(HARNESS_DIR, "target"))
    env.pop("RUSTFLAGS", None)   # the harness's own .cargo/config.toml decides
    t0 = time.time()
    r = subprocess.run(["cargo", "build", "--offline", "--quiet"], cwd=HARNESS_DIR, env=env,
                       stdout=subprocess.PIPE, stderr=subprocess.STDOUT, text=True)
    if r.returncode != 0:
        # a change under /repo that no longer compiles is not a property violation
        sys.stdout.write(r.stdout[-6000:])
        raise ToolError("cargo build of the harness failed")
    return time.time() - t0


def tlc_cmd(module, cfg, workers=8, metadir=None, simulate=None, seed=None, coverage=False, deque=False,
            heap=None, depth=None):
    jopts = "-Xss1g -Djava.io.tmpdir=%s" % os.path.join(WORK, "tmp")
    if deque:
        jopts += " -Dtlc2.tool.queue.IStateQueue=StateDeque"
    if heap:
        jopts += " -Xmx%s" % heap
    env = dict(os.environ, JAVA_TOOL_OPTIONS=jopts)
    # java is called directly (not through the `tlc` wrapper) so that -Xss also sizes the main
    # thread, which evaluates ASSUMEs and initial states (JAVA_TOOL_OPTIONS reaches new threads only)
    cmd = ["java", "-Xss1g", "-XX:+UseParallelGC", "-cp",
           "/opt/veriftools/tla/tla2tools.jar:/opt/veriftools/tla/CommunityModules-deps.jar", "tlc2.TLC",
           "-workers", str(workers), "-metadir", metadir, "-cleanup", "-noGenerateSpecTE"]
    if coverage:
        cmd += ["-coverage", "1"]
    if simulate:
        cmd += ["-simulate", "num=%d" % simulate]
        if depth:
            cmd += ["-depth", str(depth)]
    if seed is not None:
        cmd += ["-seed", str(seed)]
    cmd += ["-config", cfg, module + ".tla"]
    return cmd, env


_re_states = re.compile(r"^(\d+) states generated, (\d+) distinct states found")
_re_sim = re.compile(r"The number of states generated: (\d+)")
_re_depth = re.compile(r"The depth of the complete state graph search is (\d+)")


class TlcResult:
    def __init__(self):
        self.generated = 0
        self.distinct = 0
        self.depth = None
        self.exit = None
        self.log_path = None
        self.emitted = 0
        self.wall = 0.0
        self.coverage = []


def run_tlc(tag, module, cfg, sink=None, timeout=1800, env_extra=None, keep_tmp=False, **kw):
    """Runs TLC; REPLAY lines go (unescaped) to sink.write, the rest to a log."""
    os.makedirs(os.path.join(WORK, "tmp"), exist_ok=True)
    metadir = os.path.join(WORK, "meta_" + tag)
    shutil.rmtree(metadir, ignore_errors=True)
    cmd, env = tlc_cmd(module, cfg, metadir=metadir, **kw)
    if env_extra:
        env.update(env_extra)
    res = TlcResult()
    res.log_path = os.path.join(WORK, tag + ".tlc.log")
    t0 = time.time()
    p = subprocess.Popen(["timeout", str(timeout)] + cmd, cwd=SPEC, env=env, stdout=subprocess.PIPE,
                         stderr=subprocess.STDOUT, text=True, bufsize=1 << 20)
    with open(res.log_path, "w") as lg:
        for line in p.stdout:
            if line.startswith(PFX):
                res.emitted += 1
                if sink is not None:
                    s = line.rstrip("\n")[len(PFX):-len(SFX)]
                    if "\\" in s:
                        s = _unesc.sub(r"\1", s)
                    sink.write(s)
                    sink.write("\n")
                continue
            lg.write(line)
            m = _re_states.match(line)
            if m:
                res.generated, res.distinct = int(m.group(1)), int(m.group(2))
            m = _re_sim.search(line)
            if m:
                res.generated = res.distinct = int(m.group(1))
            m = _re_depth.search(line)
            if m:
                res.depth = int(m.group(1))
    res.exit = p.wait()
    res.wall = time.time() - t0
    shutil.rmtree(metadir, ignore_errors=True)
    if not keep_tmp:
        shutil.rmtree(os.path.join(WORK, "tmp"), ignore_errors=True)
    return res


def tlc_tail(res, n=40):
    with open(res.log_path) as f:
        lines = f.readlines()
    return "".join(lines[-n:])


class HarnessReplay:
    """`verif-harness replay` with stdin fed by the caller."""

    def __init__(self, tag, workers=4, timeout_ms=20000, env_extra=None):
        self.out_path = os.path.join(WORK, tag + ".harness.out")
        self.outf = open(self.out_path, "w")
        env = dict(os.environ)
        env.pop("LIQUID_VERIF_TRACE", None)
        env.update(env_extra or {})
        self.p = subprocess.Popen([HARNESS, "replay", "--workers", str(workers), "--timeout-ms", str(timeout_ms)],
                                  stdin=subprocess.PIPE, stdout=self.outf, stderr=subprocess.PIPE, text=True,
                                  bufsize=1 << 20, env=env)

    def write(self, s):
        self.p.stdin.write(s)

    def finish(self):
        try:
            self.p.stdin.close()
        except BrokenPipeError:
            pass
        err = self.p.stderr.read()
        rc = self.p.wait()
        self.outf.close()
        fails, summary = [], None
        with open(self.out_path) as f:
            for line in f:
                if line.startswith("FAIL "):
                    fails.append(json.loads(line[5:]))
                elif line.startswith("SUMMARY "):
                    summary = json.loads(line[8:])
        if rc != 0 or summary is None:
            raise ToolError("harness replay failed rc=%s: %s" % (rc, err[-2000:]))
        return fails, summary


# ------------------------------------------------------------------ findings

def load_findings():
    path = os.path.join(VERIF, "known_findings.json")
    if not os.path.exists(path):
        return []
    with open(path) as f:
        return json.load(f).get("findings", [])


def _field(obj, dotted):
    cur = obj
    for part in dotted.split("."):
        if isinstance(cur, dict) and part in cur:
            cur = cur[part]
        elif isinstance(cur, list) and part.isdigit() and int(part) < len(cur):
            cur = cur[int(part)]
        else:
            return None
    return cur


def finding_matches(finding, fail):
    """A finding names the failing call site and input shape: every condition
    must hold on the structured failure record."""
    for cond in finding.get("match", []):
        v = _field(fail, cond["field"])
        if v is None:
            return False
        s = v if isinstance(v, str) else json.dumps(v, sort_keys=True)
        if "eq" in cond and s != (cond["eq"] if isinstance(cond["eq"], str) else json.dumps(cond["eq"], sort_keys=True)):
            return False
        if "regex" in cond and not re.search(cond["regex"], s):
            return False
    return True


# ------------------------------------------------------------------ check run

class Check:
    def __init__(self, prop, tier, seed):
        self.prop, self.tier, self.seed = prop, tier, seed
        self.t0 = time.time()
        self.states = 0
        self.transitions = 0
        self.traces = 0
        self.evaluations = 0
        self.nontrivial = 0
        self.samples = []
        self.stage_info = []
        self.fails = []          # structured failures from all stages
        self.model_violations = []  # (stage, log path)
        self.exhaustive = True
        self.assumptions = []
        self.rule = ""
        os.makedirs(WORK, exist_ok=True)
        rdir = os.path.join(VERIF, "replays", prop)
        if os.path.isdir(rdir):
            for fn in os.listdir(rdir):
                if fn.startswith(tier + "_"):
                    os.remove(os.path.join(rdir, fn))

    # -- binding A
    def replay_stage(self, name, module, cfg, tlc_workers=8, harness_workers=4, timeout=1800, exhaustive=True,
                     worker_timeout_ms=20000, tee=None, frames=False, frames_max_events=None, **kw):
        """frames=True: the replaying workers also record the scope-frame hook events of every render
        (cfg(liquid_verif)); the recorded traces are validated against Trace_Frames afterwards."""
        tag = "%s_%s_%s" % (self.prop, self.tier, name)
        log("[%s] stage %s: TLC %s/%s -> harness replay" % (self.prop, name, module, cfg))
        fbase = os.path.join(WORK, tag + ".frames")
        if frames:
            for old in glob.glob(fbase + ".*"):
                os.remove(old)
        h = HarnessReplay(tag, workers=harness_workers, timeout_ms=worker_timeout_ms,
                          env_extra={"LIQUID_VERIF_TRACE": fbase} if frames else None)
        sink = h
        teef = None
        if tee:
            teef = open(tee, "w")
            class Tee:
                def write(self_, s):
                    h.write(s); teef.write(s)
            sink = Tee()
        res = run_tlc(tag, module, cfg, sink=sink, workers=tlc_workers, timeout=timeout, **kw)
        if teef:
            teef.close()
        fails, summary = h.finish()
        self._account_tlc(name, res, exhaustive)
        self.traces += summary["records"]
        self.evaluations += summary["records"]
        self.nontrivial += summary["nontrivial"]
        for s in summary["samples"]:
            if len(self.samples) < 8:
                self.samples.append({"stage": name, "record": s})
        for f in fails:
            f["stage"] = name
        self.fails += fails
        for cat, n in summary.get("fail_categories", {}).items():
            if n > 500000:
                # more disagreements than were written out: they cannot all be matched against known findings
                self.fails.append({"stage": name, "rec": None,
                                   "detail": {"why": "more than 500000 disagreements in category, not all listed", "category": cat, "count": n}})
        self.stage_info[-1].update({"replayed": summary["records"], "distinct_records": summary["distinct"],
                                    "nontrivial": summary["nontrivial"], "impl_disagreements": len(fails)})
        if res.emitted != summary["records"]:
            raise ToolError("emitted %d records but harness saw %d" % (res.emitted, summary["records"]))
        log("[%s]   %d states, %d records replayed, %d disagreements, %.1fs" %
            (self.prop, res.distinct, summary["records"], len(fails), res.wall))
        if frames:
            self.frames_stage(name + "-frames", glob.glob(fbase + ".*"), max_events=frames_max_events)
        return res, summary

    def frames_stage(self, name, files, timeout=1800, split=8, max_events=None):
        """Hook traces (one file per recording process) -> one ndjson -> Trace_Frames.  Only complete
        Begin..End blocks are kept: a worker killed by the watchdog leaves a cut last block."""
        tag = "%s_%s_%s" % (self.prop, self.tier, name)
        merged = os.path.join(WORK, tag + ".ndjson")
        traces = events = cut = stores = 0
        every = 1
        if max_events:
            total = 0
            for fp in files:
                with open(fp, "rb") as f:
                    total += sum(1 for _ in f)
            every = max(1, -(-total // max_events))
        seen = 0
        with open(merged, "w") as out:
            for fp in sorted(files):
                block = []
                with open(fp, errors="replace") as f:
                    for ln in f:
                        if ln.startswith('{"e":"Begin"'):
                            if block:
                                cut += 1
                            block = [ln]
                        elif block:
                            block.append(ln)
                            if ln.startswith('{"e":"End"') and ln.endswith("}\n"):
                                seen += 1
                                if seen % every == 0:      # quick tiers validate every k-th recorded render
                                    out.writelines(block)
                                    traces += 1
                                    events += len(block)
                                    stores += sum(1 for x in block if '"stored":true' in x)
                                block = []
                if block:
                    cut += 1
        for fp in files:
            os.remove(fp)
        if traces == 0:
            raise ToolError("no scope-frame traces were recorded (hooks not compiled in?)")
        info = {"traces": traces, "events": events, "cases": traces, "nontrivial": stores, "cut_blocks_dropped": cut,
                "recorded_renders": seen, "validated_every": every}
        return self.trace_stage(name, [], "Trace_Frames", "Trace_Frames.cfg", timeout=timeout, trace_path=merged,
                                gen=False, split=split, boundary="Begin", info=info)

    # -- TLC only
    def model_stage(self, name, module, cfg, tlc_workers=8, timeout=1800, exhaustive=True, **kw):
        tag = "%s_%s_%s" % (self.prop, self.tier, name)
        log("[%s] stage %s: TLC %s/%s (model only)" % (self.prop, name, module, cfg))
        res = run_tlc(tag, module, cfg, sink=None, workers=tlc_workers, timeout=timeout, **kw)
        self._account_tlc(name, res, exhaustive)
        log("[%s]   %d states, %.1fs" % (self.prop, res.distinct, res.wall))
        return res

    # -- TLAPS: an unbounded proof about the specification itself (no binding; complements TLC's bounded instances)
    def proof_stage(self, name, module, needs, timeout=1800):
        tag = "%s_%s_%s" % (self.prop, self.tier, name)
        d = os.path.join(WORK, tag)
        shutil.rmtree(d, ignore_errors=True)
        os.makedirs(d)
        shutil.copy(os.path.join(VERIF, "proofs", module + ".tla"), d)
        for m in needs:
            shutil.copy(os.path.join(SPEC, m + ".tla"), d)
        log("[%s] stage %s: tlapm %s" % (self.prop, name, module))
        t0 = time.time()
        r = subprocess.run(["timeout", str(timeout), "tlapm", "--threads", "6", module + ".tla"], cwd=d,
                           stdout=subprocess.PIPE, stderr=subprocess.STDOUT, text=True)
        wall = time.time() - t0
        with open(os.path.join(WORK, tag + ".tlapm.log"), "w") as f:
            f.write(r.stdout)
        m = re.search(r"All (\d+) obligations proved", r.stdout)
        shutil.rmtree(d, ignore_errors=True)
        if not m:
            raise ToolError("tlapm did not prove %s: %s" % (module, r.stdout[-1500:]))
        self.stage_info.append({"stage": name, "tlapm_obligations_proved": int(m.group(1)), "wall_s": round(wall, 1),
                                "exhaustive": True, "unbounded": True})
        log("[%s]   %s obligations proved, %.1fs" % (self.prop, m.group(1), wall))

    # -- binding B
    def _run_split(self, tag, module, cfg, trace_path, split, boundary, timeout, heap):
        """Validates a long trace as `split` independent chunks in parallel TLC runs.  Chunks start at
        a `boundary` event (a new behaviour of the trace spec) or, with boundary None, at any event."""
        with open(trace_path) as f:
            lines = [x for x in f if x.strip()]
        if lines and '"End"' in lines[-1][:40]:
            lines = lines[:-1]
        target = max(1, len(lines) // split)
        chunks, cur = [], []
        for ln in lines:
            if len(cur) >= target and len(chunks) < split - 1 and (boundary is None or ('"e":"%s"' % boundary) in ln or ('"e": "%s"' % boundary) in ln):
                chunks.append(cur)
                cur = []
            cur.append(ln)
        chunks.append(cur)
        paths = []
        for i, ch in enumerate(chunks):
            pth = "%s.part%d" % (trace_path, i)
            with open(pth, "w") as f:
                f.writelines(ch)
                f.write('{"e":"End"}\n')
            paths.append(pth)
        results = [None] * len(paths)
        def work(i):
            results[i] = run_tlc("%s_p%d" % (tag, i), module, cfg, sink=None, workers=1, timeout=timeout, deque=True,
                                 heap=heap, env_extra={"TRACE": paths[i]}, keep_tmp=True)
        ths = [threading.Thread(target=work, args=(i,)) for i in range(len(paths))]
        for t in ths:
            t.start()
        for t in ths:
            t.join()
        shutil.rmtree(os.path.join(WORK, "tmp"), ignore_errors=True)
        # the first failing chunk decides; otherwise aggregate
        agg = results[0]
        bad = None
        for i, r in enumerate(results):
            if r.exit != 0 and bad is None:
                bad = i
        if bad is not None:
            return results[bad], paths[bad]
        agg.generated = sum(r.generated for r in results)
        agg.distinct = sum(r.distinct for r in results)
        agg.wall = max(r.wall for r in results)
        return agg, trace_path

    def trace_stage(self, name, gen_args, module, cfg, timeout=1800, heap="4g", trace_path=None, gen=True, split=1,
                    boundary="Reset", info=None):
        """harness records ndjson traces of the real code; the trace spec must accept them."""
        tag = "%s_%s_%s" % (self.prop, self.tier, name)
        if trace_path is None:
            trace_path = os.path.join(WORK, tag + ".ndjson")
        log("[%s] stage %s: harness trace %s -> TLC %s" % (self.prop, name, " ".join(gen_args), module))
        info = info or {}
        if gen:
            r = subprocess.run([HARNESS, "trace"] + gen_args + ["--seed", str(self.seed), "--out", trace_path],
                               stdout=subprocess.PIPE, stderr=subprocess.PIPE, text=True)
            if r.returncode != 0:
                raise ToolError("harness trace failed: " + r.stderr[-2000:])
            for line in r.stdout.splitlines():
                if line.startswith("TRACEINFO "):
                    info = json.loads(line[10:])
        if split > 1:
            res, trace_path = self._run_split(tag, module, cfg, trace_path, split, boundary, timeout, heap)
        else:
            res = run_tlc(tag, module, cfg, sink=None, workers=1, timeout=timeout, deque=True, heap=heap,
                          env_extra={"TRACE": trace_path})
        rejected = res.exit in (10, 12, 13)
        self._account_tlc(name, res, exhaustive=False, trace=True)
        self.stage_info[-1].update({k: v for k, v in info.items() if k != "samples"})
        n_traces = info.get("traces", 0)
        n_events = info.get("events", 0)
        self.evaluations += info.get("cases", n_traces)
        self.nontrivial += info.get("nontrivial", 0)
        for s in info.get("samples", []):
            if len(self.samples) < 8:
                self.samples.append({"stage": name, "trace": s})
        if rejected:
            self.fails.append(self._trace_rejection(name, res, trace_path))
        else:
            self.traces += n_traces
            # accepted traces are not kept (they can be several GB); a rejected one stays for the replay file
            for fp in glob.glob(trace_path + "*") + glob.glob(os.path.join(WORK, tag + ".ndjson*")):
                try:
                    os.remove(fp)
                except OSError:
                    pass
        log("[%s]   %d traces / %d events, TLC exit %s (%s), %.1fs" %
            (self.prop, n_traces, n_events, res.exit, "REJECTED" if rejected else "accepted", res.wall))
        return res, info, trace_path

    def _trace_rejection(self, name, res, trace_path):
        """The trace spec could not explain an event: keep the longest matched prefix's
        last run (from its Reset event) and the first unmatched event."""
        with open(res.log_path) as f:
            text = f.read()
        m = re.search(r'TRACE-REJECTED at event",\s*(\d+)', text)
        at = int(m.group(1)) if m else None
        excerpt, reset = [], None
        if at is not None:
            with open(trace_path) as f:
                lines = f.readlines()
            lo = at - 1
            while lo > 0 and '"Reset"' not in lines[lo][:80] and at - lo < 400:
                lo -= 1
            excerpt = [json.loads(x) for x in lines[lo:at + 1][:400]]
            reset = excerpt[0] if excerpt else None
        tail = text[-3000:]
        return {"stage": name, "rec": None,
                "detail": {"why": "trace not explained by the specification", "rejected_at_event": at,
                           "run": reset, "first_unmatched": excerpt[at - lo - 0 - 1] if excerpt and at is not None and at - lo - 1 < len(excerpt) else None,
                           "excerpt": excerpt, "tlc_tail": tail}}

    def _account_tlc(self, name, res, exhaustive, trace=False):
        info = {"stage": name, "tlc_exit": res.exit, "states": res.distinct, "transitions": res.generated,
                "depth": res.depth, "emitted": res.emitted, "wall_s": round(res.wall, 1), "exhaustive": exhaustive}
        self.stage_info.append(info)
        self.states += res.distinct
        self.transitions += res.generated
        if not exhaustive:
            self.exhaustive = False
        if trace and res.exit in (10, 12, 13):
            pass
        elif res.exit in (12, 13):
            # the specification itself violates an invariant/property: a design-level finding
            keep = os.path.join(VERIF, "replays", self.prop)
            os.makedirs(keep, exist_ok=True)
            dst = os.path.join(keep, "%s_%s_tlc_counterexample.txt" % (self.tier, name))
            shutil.copy(res.log_path, dst)
            self.model_violations.append((name, dst))
        elif res.exit == 124:
            raise ToolError("TLC timed out in stage %s\n%s" % (name, tlc_tail(res, 15)))
        elif res.exit != 0:
            raise ToolError("TLC failed (exit %s) in stage %s\n%s" % (res.exit, name, tlc_tail(res)))

    # -- verdict
    def finish(self, level="model_checking", extra_coverage=None):
        findings = [f for f in load_findings() if f.get("property") == self.prop]
        known_hits = {}
        unknown = []
        for fl in self.fails:
            hit = None
            for fd in findings:
                if fd.get("status") == "known" and finding_matches(fd, fl):
                    hit = fd
                    break
            if hit is None:
                unknown.append(fl)
            else:
                known_hits.setdefault(hit["id"], [hit, 0])[1] += 1
        for fid, (fd, n) in sorted(known_hits.items()):
            log("KNOWN-FINDING: property=%s %s (%s; %d cases this run)" % (self.prop, fd["what"], fid, n))
        violations = []
        rdir = os.path.join(VERIF, "replays", self.prop)
        if unknown:
            os.makedirs(rdir, exist_ok=True)
            for i, fl in enumerate(unknown[:50]):
                path = os.path.join(rdir, "%s_%03d.json" % (self.tier, i))
                with open(path, "w") as f:
                    json.dump(fl, f, indent=1, sort_keys=True)
                violations.append(path)
        for name, path in self.model_violations:
            violations.append(path)
        wall = time.time() - self.t0
        cov = {
            "states": self.states, "transitions": self.transitions,
            "traces_validated_against_impl": self.traces,
            "evaluations": self.evaluations, "distinct_nontrivial": self.nontrivial,
            "rule": self.rule, "samples": self.samples[:8], "exhaustive": self.exhaustive,
            "stages": self.stage_info,
            "known_findings_hit": {k: v[1] for k, v in known_hits.items()},
            "impl_disagreements": len(self.fails),
        }
        if extra_coverage:
            cov.update(extra_coverage)
        ev = {"property_id": self.prop, "tier": self.tier, "seed": self.seed, "level": level,
              "coverage": cov, "assumptions": self.assumptions, "wall_s": round(wall, 1),
              "violations": len(unknown) + len(self.model_violations)}
        os.makedirs(os.path.join(VERIF, "evidence"), exist_ok=True)
        with open(os.path.join(VERIF, "evidence", self.prop + ".json"), "w") as f:
            json.dump(ev, f, indent=1)
        if violations:
            for fl in unknown[:5]:
                log("  disagreement: " + json.dumps(fl.get("detail"))[:600])
            for v in violations[:10]:
                log("VIOLATION property=%s replay=%s" % (self.prop, v))
            return 1
        log("[%s] %s: held on everything explored (%d states, %d replays/traces, %.0fs)" %
            (self.prop, self.tier, self.states, self.traces, wall))
        return 0
