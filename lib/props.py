import json, os, subprocess, sys, time, shutil
import driver
from driver import Check, ToolError, log


def c11(ck):
    ck.rule = ("all 4356 ordered pairs of a 66-value pool: nil, booleans, integers (0, +-1, 2, 2^53, 2^53+1, i64 bounds), floats (0, 0.5, 1, 2, -1, "
               "2^53, +-2^63, +-inf, nan), strings (empty, blank, numeric-looking, 'true', mixed case, non-ASCII, NBSP), date-times (same "
               "instant in three offsets, one second later, same local day), dates, empty/blank markers, arrays and objects nested two "
               "deep incl. six-key objects; each pair through ValueViewCmp (7 operators), ValueCow owned/borrowed/mixed and 9 templates, "
               "with both values built twice (reversed key insertion order, separate maps); the replay runs in two passes of fresh worker "
               "processes; non-trivial = the two values differ")
    ck.assumptions = ["integer/float equality is claimed by the property only up to 2^53; beyond, the model follows (i as f64) == f",
                      "object order is the order of key-sorted entries"]
    ck.replay_stage("pairs", "MC_C11", "MC_C11_quick.cfg", tlc_workers=8, harness_workers=4, timeout=3000)
    # a second pass in fresh worker processes: per-process hash seeds differ, the specification's answers do not
    ck.replay_stage("pairs-second-process", "MC_C11", "MC_C11_quick.cfg", tlc_workers=8, harness_workers=6, timeout=3000)


def c12(ck):
    ck.rule = ("values: 12 scalars (nil, booleans, integers, floats, empty / blank / numeric-looking strings), every array of <= 2 and "
               "object over keys {a, b} of them (depth 1), and the same constructors over a representative slice (quick) or all (thorough) "
               "of depth 1 (depth 2), plus a date and a date-time; each observed through Value, &Value, ValueCow owned / borrowed, "
               "Option, to_value(), into_owned, serde to_value / from_value, serde_json text round trip, Vec / HashMap / BTreeMap, "
               "to_object and JSON -> Object, with equality against 13 probes; 192 instances of a struct family deriving Serialize, "
               "Deserialize, ObjectView, ValueView compared with their serde twin in the API and in a template; 11 integer spellings "
               "across the i64 / u64 boundaries through 5 conversion routes; non-trivial = not a bare scalar")
    ck.assumptions = ["printing a multi-key object is unspecified; its other observations are checked",
                      "the derive macros are exercised on the struct family the harness defines (named-field structs, which is all they support)"]
    ck.replay_stage("views", "MC_C12", "MC_C12_quick.cfg" if ck.tier == "quick" else "MC_C12_thorough.cfg", tlc_workers=8, timeout=3400)


def c13(ck):
    ck.rule = ("every string of length <= 3 (thorough 4) over {a, B, space, LF, tab, comma, <, e-acute, U+0301, emoji} x every filter "
               "link: 11 argument-free filters; append/prepend/remove/remove_first/split/default x every argument string of length "
               "<= 1 (2); replace/replace_first x search x 3 replacements; truncate/truncatewords x [-6, 8] x 4 ellipses; slice x "
               "[-6, 8] x 6 lengths and with default length; join over arrays of <= 3 one-character strings x 4 separators; every "
               "chain of 2 (3) links from 15 over inputs of length <= 2; non-trivial = non-empty input")
    ck.assumptions = ["characters are Unicode scalar values; truncate counts grapheme clusters as the filter documents",
                      "where the property is silent (empty search/separator, truncatewords on text not separated by single spaces) only totality is required",
                      "a negative truncate limit never truncates (pinned by the repository's unit tests)"]
    ck.replay_stage("strings", "MC_C13", "MC_C13_quick.cfg" if ck.tier == "quick" else "MC_C13_thorough.cfg",
                    tlc_workers=8 if ck.tier == "quick" else 12, harness_workers=6, timeout=3400)


def c14(ck):
    ck.rule = ("exhaustive: every array of length 0..4 (thorough 5) over {nil, 1, 2, 2.0, 'a', 'A', 'b'} x 17 filter links (sort, "
               "sort_natural, reverse, uniq, compact, first, last, size, join, concat, 4 slices, map, where); strings differing only "
               "in case; arrays of length 0..3 (4) over 8 one/two-key objects with missing / nil / false properties x property-taking "
               "filters with present and absent property names and where-targets; mixed incomparable elements; random: seeded arrays "
               "of length up to 60 in drawn / ascending / descending / organ-pipe order over four type mixes; non-trivial = length > 1 "
               "(exhaustive) or > 20 (random)")
    ck.assumptions = ["on elements that are not mutually comparable sort is only required to return a permutation",
                      "sort_natural orders by the lower-cased printed form, nil last"]
    ck.replay_stage("arrays", "MC_C14", "MC_C14_quick.cfg" if ck.tier == "quick" else "MC_C14_thorough.cfg",
                    tlc_workers=8 if ck.tier == "quick" else 12, harness_workers=6, timeout=3400)
    ck.trace_stage("random60", ["arrays", "--cases", "400" if ck.tier == "quick" else "4000"], "Trace_Eval", "Trace_Eval.cfg",
                   heap="6g", timeout=3000)


def c15(ck):
    ck.rule = ("operand pool {0, +-1, +-2, +-3, +-7, 10, +-2^31, +-2^62, MAX-1, MAX, MIN, MIN+1} as integers, as numeric strings and as "
               "floats, plus nil / bool / array / non-numeric and decimal strings: every ordered pair x {plus, minus, times, "
               "divided_by, modulo, at_least, at_most}; every pair of k/8 (|k| <= 12 quick, 40 thorough) x the same filters; abs, ceil, "
               "floor, round on every operand; integer divided_by and modulo of the same pair are checked together; "
               "non-trivial = the left operand is a number")
    ck.assumptions = ["a double result is accepted when it equals the exact rational result if that is a double, else within 2^-53 relative "
                      "error (2^-52 for the float fallback of an overflowing integer operation); IEEE rounding itself is not recomputed",
                      "ceil/floor/round are claimed for results within the 64-bit range"]
    corpus = os.path.join(driver.WORK, "C15_%s_cases.json" % ck.tier)
    cfg = "MC_C15_quick.cfg" if ck.tier == "quick" else "MC_C15_thorough.cfg"
    ck.replay_stage("relation-laws", "MC_C15", cfg, tee=corpus, tlc_workers=10, timeout=3400)
    ck.trace_stage("outcomes", ["math", "--corpus", corpus], "Trace_Math", "Trace_Math.cfg", heap="3g", timeout=3400,
                   split=10, boundary=None)


def c16(ck):
    ck.rule = ("escape / escape_once: every string of length <= 4 (thorough 5) over {< > & \" ' ; # a l t m p space e-acute} and "
               "every sequence of <= 3 (4) entity-level tokens (the five entities, bare &, &amp without ;, &lt;;, &#39 without ;); "
               "url_encode / url_decode: every string of length <= 4 over {% + 2 F f space / e-acute emoji}; strip_html: every string "
               "of length <= 4 (6) over {< > ! - / s c r i p t a} and every sequence of <= 3 (4) tag-level tokens (<script, </script>, "
               "<style, </style>, <!--, -->, upper-case variants); non-trivial = non-empty input")
    ck.assumptions = ["url_decode copies incomplete or non-hex escapes unchanged", "strip_html is the four documented removal passes"]
    ck.replay_stage("strings", "MC_C16", "MC_C16_quick.cfg" if ck.tier == "quick" else "MC_C16_thorough.cfg",
                    tlc_workers=8 if ck.tier == "quick" else 12, harness_workers=6, timeout=3400)


def c17(ck):
    ck.rule = ("timestamps: 18-19 day-boundary cases (1-7 Jan, 25-31 Dec, 28 Feb / 29 Feb / 1 Mar, mid-year) for each listed year plus "
               "years 1, 1000, 9999; every hour; sub-second values 5 ms, 1 us, 1 ns, 123456789, 999999999, 0.5 s x offsets -12:00, "
               "-03:30, 0, +01:00, +05:30, +05:45, +14:00; formats: every directive (21 numeric, 7 alphabetical, 16 others) x 9 flag "
               "combinations x widths {none, 1, 3, 6, 12} on 5 stamps (thorough: all stamps), every plain directive, directive between "
               "literals, concatenations, unknown ASCII and non-ASCII directives, trailing %, non-ASCII text on all stamps; each stamp "
               "also through 4 alternative input spellings; non-trivial = non-empty format")
    ck.assumptions = ["now/today are excluded (they read the clock)", "%Z prints an offset (documented deviation), %s is claimed for 1970..2037",
                      "flag/width combinations on composite directives, %#p / %^P / %#P, and offsets with a width or the _ flag are unspecified (totality only)"]
    ck.replay_stage("dates", "MC_C17", "MC_C17_quick.cfg" if ck.tier == "quick" else "MC_C17_thorough.cfg",
                    tlc_workers=8 if ck.tier == "quick" else 12, harness_workers=6, timeout=3400)
    # "equality and ordering of date-times are chronological regardless of offset": LiquidCompare on the date / date-time
    # part of the C11 pool plus pairs whose local dates order against their instants
    ck.replay_stage("ordering", "MC_C11", "MC_C11_dates.cfg", tlc_workers=4)


def suite_frames(ck):
    """The repository's own test suite, built with the hooks, records every render it performs; all of them must be
    behaviours of LiquidFrames."""
    import subprocess, glob
    tdir = os.path.join(driver.WORK, "repo_target")
    out = os.path.join(driver.WORK, "%s_%s_suite.frames.0" % (ck.prop, ck.tier))
    if os.path.exists(out):
        os.remove(out)
    env = dict(os.environ, CARGO_TARGET_DIR=tdir, CARGO_NET_OFFLINE="true", LIQUID_VERIF_TRACE=out,
               RUSTFLAGS="--cfg liquid_verif")
    driver.log("[%s] stage suite-frames: cargo test (hooks on) -> hook traces" % ck.prop)
    r = subprocess.run(["cargo", "test", "--workspace", "--lib", "--tests", "--no-fail-fast", "--offline"], cwd="/repo", env=env,
                       stdout=subprocess.PIPE, stderr=subprocess.STDOUT, text=True)
    shutil.rmtree(tdir, ignore_errors=True)
    if not os.path.exists(out):
        raise driver.ToolError("the hooked test suite recorded nothing: " + r.stdout[-1500:])
    ck.frames_stage("suite-frames", [out], split=4)


def c18(ck):
    ck.rule = ("every operation sequence over {PushPlain d, PushSandbox d, PushGlobal, Pop, SetGlobal k v, SetIndex k v} "
               "from every one of the 9 base maps up to the stated length is one TLC state and one replay record; "
               "non-trivial = contains at least one push and at least one of SetGlobal/SetIndex/Pop; records are distinct "
               "because TLC states (base, history) are distinct; LiquidFrames: every frame tree of <= 5 frames x 1 name (thorough 6 x 1 and 5 x 2) with every interleaving of construction, lookups, global and counter stores; hook traces of the replayed histories (quick: every k-th, thorough: all and the repository's own test suite)")
    ck.assumptions = [
        "values are scalars and one-key objects; paths have length 1..2 over {a,b} x {x,size,y}",
        "the harness observes only through the public Runtime trait (try_get, get, roots, get_index, registers)",
    ]
    # LiquidFrames: the same runtime at the grain of one delegation step per action, tied to LiquidRuntime's declarative
    # definitions by invariants; the hook traces of the replayed histories must be behaviours of it (Trace_Frames)
    if ck.tier == "quick":
        ck.model_stage("frames-model", "MC_Frames", "MC_Frames_k1f5.cfg", tlc_workers=4)
        ck.replay_stage("len3", "MC_C18", "MC_C18_quick.cfg", frames=True, frames_max_events=2500000)
    else:
        ck.model_stage("frames-model-1key-6frames", "MC_Frames", "MC_Frames_k1f6.cfg", tlc_workers=8)
        ck.model_stage("frames-model-2keys-5frames", "MC_Frames", "MC_Frames_k2f5.cfg", tlc_workers=8)
        ck.replay_stage("len3", "MC_C18", "MC_C18_quick.cfg", frames=True)
        suite_frames(ck)
        ck.replay_stage("len4", "MC_C18", "MC_C18_t4.cfg", tlc_workers=10, harness_workers=5, timeout=3000)
        ck.model_stage("states5reduced", "MC_C18", "MC_C18_m5r.cfg", tlc_workers=12, timeout=3000)
        ck.replay_stage("walks6", "MC_C18", "MC_C18_sim6.cfg", tlc_workers=8, simulate=150000, depth=8,
                        seed=ck.seed, exhaustive=False, timeout=3000)


def c01(ck):
    ck.rule = ("structural: every sequence of <= 4 (thorough 5) elements over 19 structural elements (text, 6 block openers and their end "
               "tags, else / elsif / when, a valid and an invalid output tag, a stray '{{') and every sequence of <= 2 (3) over the full "
               "83-element alphabet (all stdlib tags and blocks well-formed and malformed, trim-marker forms, wrong arity, unknown filter "
               "and tag, 20-digit and minimum integers, unterminated quotes, stray delimiters, tab), each rendered joined by '' and by ' ' "
               "and parsed under 3 configurations; lexical / random: every sequence of <= 2 (3) of 40 lexical tokens inside each of 10 host "
               "tags, nesting towers of depth 1..32 (closed, unclosed, over-closed) for 8 block kinds, multi-byte text runs of 1..8 "
               "characters before quote-bearing valid and invalid elements on lines 1..3, random token soups and delete / duplicate / "
               "transpose mutations of 14 well-formed templates; non-trivial = more than one element / not accepted; arguments: every concatenation of <= 2 of 44 generic lexical pieces and <= 2 (3) pieces of the host's own vocabulary inside 15 host tags, verdict (and output where no filter is involved) derived by LiquidLex + LiquidArgs + LiquidInterp")
    ck.assumptions = ["hangs are detected by a 20 s per-batch watchdog in the worker pool, not proved absent",
                      "inside a comment, unbalanced block openers make the verdict unspecified (totality only), as the property says",
                      "the empty configuration is checked for totality only"]
    ck.replay_stage("structure", "MC_C01", "MC_C01_quick.cfg" if ck.tier == "quick" else "MC_C01_thorough.cfg",
                    tlc_workers=10, harness_workers=8, timeout=3400)
    # LiquidLex (the inner grammar as a PEG) + LiquidArgs (every tag's argument consumer): verdict of every piece sequence
    # in every host tag, and the rendered output of the accepted ones through LiquidInterp
    ck.replay_stage("arguments", "MC_Lex", "MC_Lex_quick.cfg" if ck.tier == "quick" else "MC_Lex_thorough.cfg",
                    tlc_workers=10, harness_workers=4, timeout=3400)
    # comments from text: nested comments with malformed headers / end tags are errors, whatever else the comment hides
    ck.replay_stage("comments-from-text", "MC_Lex", "MC_Lex_comment_quick.cfg" if ck.tier == "quick" else "MC_Lex_comment_thorough.cfg",
                    tlc_workers=8, timeout=3400)
    args = ["soups", "--cases", "4000", "--lexlen", "2"] if ck.tier == "quick" else ["soups", "--cases", "40000", "--lexlen", "3"]
    ck.trace_stage("soups", args, "Trace_Calls", "Trace_Calls.cfg", heap="6g", timeout=3400, split=8, boundary="Call")


def c02(ck):
    ck.rule = ("every registered filter (48 stdlib + 8 jekyll / shopify / extra) x every input of a 45-value type-confused pool (nil, "
               "booleans, integers incl. the i64 limits and +-10^4, floats incl. .5 ties, 2^63, inf, nan, strings empty / blank / "
               "non-ASCII / combining / emoji / numeric / format-like / html, arrays of 0..40 mixed elements, arrays of objects, objects "
               "incl. one with its own 'size' key) x every argument tuple: arity 0, arity 1 over the whole pool, arity 2 over a 12-value "
               "(quick) or the whole (thorough) pool; 46 tag / block sources with edge arguments (tablerow cols 0 / 1 / -1 / MAX, cycle "
               "without values, limit / offset / range bounds from the pool, counters next to assigned non-integers, partial names of the "
               "wrong type); all cases are non-trivial")
    ck.assumptions = ["the harness is built with debug assertions and overflow checks, so arithmetic that would wrap in a release build panics here and is recorded",
                      "for filters without a functional specification the table contributes the enumerated space and the outcome class "
                      "(arity outside the signature = rejected; inside = returns a value or an error, valid UTF-8), not the value",
                      "tags and blocks are also exercised by every corpus of C03 - C10"]
    ck.replay_stage("filters+edges", "MC_C02", "MC_C02_quick.cfg" if ck.tier == "quick" else "MC_C02_thorough.cfg",
                    tlc_workers=10, harness_workers=8, timeout=3400)


def c03(ck):
    ck.rule = ("text-markup-text triples: left/right text = core x whitespace run (all runs up to the bound over {space, tab, LF, CR}; "
               "cores '', a, e-acute, }, %, quote, emoji) around an output tag or an assign tag with each of the 4 trim-marker "
               "combinations and 0..MaxPad inner spaces; two markups in a row; text-only templates; if / raw / comment blocks with all "
               "16 marker combinations x 4x4 outer texts x bodies (whitespace-edged text, things that look like markup, unterminated "
               "markup, trimming pseudo-tags, side-effecting markup, nested comment) followed by a side-effect probe; "
               "non-trivial = contains markup; raw / comment from text: every sequence of <= 4 (5) of 16 elements (raw / endraw with and without trim markers and arguments, comment / endcomment, block openers, invalid liquid, swallowed blanks) through LiquidParse")
    ck.assumptions = ["text never fuses with a neighbouring delimiter into a different delimiter (cores exclude '{')",
                      "whitespace = space, tab, CR, LF as the property states"]
    ck.replay_stage("templates", "MC_C03", "MC_C03_quick.cfg" if ck.tier == "quick" else "MC_C03_thorough.cfg",
                    tlc_workers=8 if ck.tier == "quick" else 12, timeout=3400)
    # raw / comment through the element scan and the block protocol (LiquidParse): end-tag look-alikes with arguments,
    # trimming end tags, text swallowed by an inner "-%}", block openers and invalid liquid inside comments
    ck.replay_stage("raw-comment-from-text", "MC_Lex", "MC_Lex_raw_quick.cfg" if ck.tier == "quick" else "MC_Lex_raw_thorough.cfg",
                    tlc_workers=8 if ck.tier == "quick" else 12, timeout=3400)


def deep_random(ck, walks):
    """random deeper programs (12 nodes, depth 4, union alphabet) built by MC_Gen's generator phase, run on the machine
    with all Interp invariants, replayed on the three store policies twice each"""
    ck.replay_stage("random-deep", "MC_Gen", "MC_Gen.cfg", tlc_workers=4, simulate=walks // 4, depth=900, seed=ck.seed,
                    exhaustive=False, timeout=3000)


def c04(ck):
    ck.rule = ("every program with at most N statement nodes over the statement alphabet {safe read, assign literal, assign copy, "
               "increment, decrement, include with argument, for, capture, if} on 2 (3) reused names x 3 caller data maps x 2 partial "
               "variants is one TLC behaviour of LiquidInterp and one replay record; non-trivial = contains a binding construct "
               "and an output of a name; distinct by construction (TLC initial states); the scope-frame hook events of every render of the n3 stage (89 k renders) validated against LiquidFrames")
    ck.assumptions = ["ASCII names and values", "partials compiled eagerly (C19 covers the other policies)",
                      "outcome compared as output text or error-ness, not error message"]
    if ck.tier == "quick":
        ck.replay_stage("n3", "MC_C04", "MC_C04_quick.cfg", frames=True)
        deep_random(ck, 1200)
    else:
        deep_random(ck, 40000)
        ck.replay_stage("n3", "MC_C04", "MC_C04_quick.cfg", frames=True)
        ck.replay_stage("n4", "MC_C04", "MC_C04_n4.cfg", tlc_workers=12, harness_workers=4, timeout=3400)
        ck.replay_stage("n3x3names", "MC_C04", "MC_C04_3names.cfg", tlc_workers=12, timeout=3400)


def c05(ck):
    ck.rule = ("every (source kind, length 0..6, offset absent|0..8, limit absent|0..8, reversed, cols absent|1..4) for/tablerow "
               "program whose body prints the item and every loop field, plus break/continue at every (i, j) of two nested loops "
               "of lengths 1..3 (inner, outer-before, outer-after, inside capture); each is one TLC behaviour and one replay record; "
               "all are non-trivial (every program runs a loop construct)")
    ck.assumptions = ["offset/limit/cols are non-negative integer literals; objects have one key",
                      "break/continue claimed for `for` only (tablerow has no interrupt handling, modelled as such)"]
    if ck.tier == "quick":
        ck.replay_stage("windows+nested", "MC_C05", "MC_C05_quick.cfg")
    else:
        deep_random(ck, 20000)
        ck.replay_stage("windows+nested", "MC_C05", "MC_C05_quick.cfg")
        ck.replay_stage("bigger", "MC_C05", "MC_C05_big.cfg", tlc_workers=12, timeout=3400)


def c06(ck):
    ck.rule = ("one program per (operator, ordered pair of the 32-value pool) through variables and per scalar pair as literals; "
               "bare-value truthiness of every pool value (literal, variable, undefined); if/elsif chains of 1..4 arms x all truth "
               "assignments x else/no else; case/when with 1..3 arms over 7 value lists x comma/or x 4-6 targets; 11 and/or shapes "
               "x all assignments incl. undefined names; every program is non-trivial (it evaluates a condition); templates from text: every sequence of <= 2 (3) of 45 elements and <= 4 (5) elements per construct family (if, for, case, capture) parsed by LiquidParse and run by LiquidInterp")
    ck.assumptions = ["multi-key objects are not ordered or printed (iteration order is unspecified)",
                      "floats in the pool are small dyadics"]
    if ck.tier == "quick":
        ck.replay_stage("all", "MC_C06", "MC_C06_quick.cfg", tlc_workers=8)
        # whole templates from characters: LiquidParse (element scan + block protocol) -> LiquidInterp -> expected output
        ck.replay_stage("templates-from-text", "MC_Lex", "MC_Lex_tmpl_quick.cfg", tlc_workers=8)
    else:
        ck.replay_stage("all", "MC_C06", "MC_C06_thorough.cfg", tlc_workers=12, timeout=3400)
        ck.replay_stage("templates-from-text", "MC_Lex", "MC_Lex_tmpl_thorough.cfg", tlc_workers=12, timeout=3400)


def c07(ck):
    ck.rule = ("every path of 1..3 (thorough 4) steps over a 27-step alphabet (keys incl. first/last/size and own-key collisions, "
               "integer-like keys, literal indices -4..3, indices through variables, through a nested path, undefined and non-scalar "
               "index expressions) from 4 roots on a nested datum; every index -7..6 into arrays of length 0..5 as literal, int "
               "variable, string variable and nested path; first/last/size on lengths 0..5; 105 literals through the AST printer and "
               "193 integer/decimal literal spellings as raw source; non-trivial = path with at least one step, or any index/literal case; from characters: every concatenation of <= 2 (3) generic pieces and <= 3 value pieces inside {{ }} and assign")
    ck.assumptions = ["ASCII keys and strings", "printing a multi-key object is unspecified (iteration order) and only checked to succeed",
                      "integer literal spellings are within the 64-bit range here; out-of-range spellings belong to C01"]
    if ck.tier == "quick":
        ck.replay_stage("paths3", "MC_C07", "MC_C07_quick.cfg")
        ck.replay_stage("from-characters", "MC_Lex", "MC_Lex_values_quick.cfg", tlc_workers=8)
    else:
        ck.replay_stage("paths4", "MC_C07", "MC_C07_thorough.cfg", tlc_workers=12, timeout=3400)
        ck.replay_stage("from-characters", "MC_Lex", "MC_Lex_values_thorough.cfg", tlc_workers=12, timeout=3400)


def c08(ck):
    ck.rule = ("208 callers (17 invocation forms of include/render x {plain, inside a for loop, on a dead path} x 2 preambles, "
               "x 2 caller data maps) x every body of partial p that is a sequence of at most N statements over a 12-statement "
               "alphabet (reads, assign, increment, break, continue, cycle, nested include/render of p2, forloop.index), with "
               "q.liquid, a missing and a broken partial present; every scenario is non-trivial (it reaches a partial tag or "
               "proves it dead)")
    ck.assumptions = ["partials compiled eagerly here; C19 replays the same scenarios under all three policies",
                      "no recursion between partials"]
    if ck.tier == "quick":
        ck.replay_stage("body1", "MC_C08", "MC_C08_quick.cfg")
        deep_random(ck, 800)
    else:
        deep_random(ck, 20000)
        ck.replay_stage("body2", "MC_C08", "MC_C08_thorough.cfg", tlc_workers=12, timeout=3400)


def c09(ck):
    ck.rule = ("every history of 3 render calls over 3 templates x 3 data objects (729) for each of 3 template triples, on one shared "
               "parser with the lazy store and again with the eager store; templates use cycle (named and unnamed), increment, decrement, "
               "ifchanged, assign, capture, break/continue (also pending at an error and pending after tablerow), dynamic include names, "
               "render, broken and missing partials; non-trivial = at least 2 calls; thorough adds random histories of 6 calls")
    ck.assumptions = ["iteration order of multi-key objects never enters an output",
                      "each call is compared with the specification's function of (template, data) on the shared parser and on a fresh parser"]
    ck.replay_stage("hist3lazy", "MC_C09", "MC_C09_lazy.cfg")
    ck.replay_stage("hist3eager", "MC_C09", "MC_C09_eager.cfg")
    # histories over templates that use filters (date parsing, sorting, string and arithmetic filters), data differing only in
    # case / blanks / order: every call must equal the same call executed alone (fresh parser, fresh thread)
    ck.replay_stage("filter-histories", "MC_C09F", "MC_C09F_quick.cfg" if ck.tier == "quick" else "MC_C09F_thorough.cfg", tlc_workers=4)
    if ck.tier != "quick":
        ck.replay_stage("walks6", "MC_C09", "MC_C09_sim6.cfg", simulate=3000, depth=700, seed=ck.seed, exhaustive=False,
                        tlc_workers=8, timeout=3000)


def c10(ck):
    ck.rule = ("corpus: every sequence of <= 2 (thorough 3) statements over the 14 writing constructs (text, output, raw, cycle, "
               "increment, decrement, ifchanged, tablerow, include, render, render-for, capture, failing output) plus each construct "
               "inside a loop, a conditional, a capture and nested loops; model: the sink fails at every logical write k; "
               "implementation: for every program and every physical call k in 0..W the real render_to runs against a sink failing at "
               "call k, once taking whole buffers and once one byte per call; one trace per (program, k, mode); non-trivial = k > 0")
    ck.assumptions = ["ASCII output", "the fault-free output used as `full` is the implementation's, which stage A compares with the specification's"]
    corpus = os.path.join(driver.WORK, "C10_%s_corpus.json" % ck.tier)
    cfg = "MC_C10_quick.cfg" if ck.tier == "quick" else "MC_C10_thorough.cfg"
    ck.replay_stage("faultfree+model", "MC_C10", cfg, tee=corpus)
    mx = "400" if ck.tier == "quick" else "1500"
    ck.trace_stage("sinkfaults", ["sink", "--corpus", corpus, "--max", mx], "Trace_Sink", "Trace_Sink.cfg", heap="6g")


def c19(ck):
    ck.rule = ("the C08 scenarios (callers x partial bodies x data, with valid, broken, absent and .liquid-suffixed partials, literal "
               "and dynamic names) run in the model under each of the three store policies; every scenario is replayed on three real "
               "parsers (EagerCompiler, LazyCompiler, OnDemandCompiler over InMemorySource), 3 renders each, every render compared "
               "with the specification's result; all scenarios are non-trivial")
    ck.assumptions = ["sources whose name listing is truthful (InMemorySource)"]
    if ck.tier == "quick":
        ck.replay_stage("body1x3policies", "MC_C08", "MC_C19_quick.cfg")
        # partials given as SOURCE TEXT (blanks and trim markers at their edges, broken ones), parsed by LiquidParse,
        # included and rendered under the three policies, twice
        ck.replay_stage("partials-from-text", "MC_Lex", "MC_Lex_partial_quick.cfg", tlc_workers=6)
    else:
        ck.replay_stage("body2x3policies", "MC_C08", "MC_C19_thorough.cfg", tlc_workers=12, timeout=3400)
        ck.replay_stage("partials-from-text", "MC_Lex", "MC_Lex_partial_thorough.cfg", tlc_workers=12, timeout=3400)


def c20(ck):
    ck.rule = ("model: every interleaving of 2 (thorough 3) threads x 2 calls each over a valid, a broken and an absent partial name, with "
               "check / read / compile / insert as separate steps inside the lock; implementation: N runs, each a fresh shared Parser "
               "(lazy store) and 7 shared Templates used by 2..16 barrier-released threads doing 3..7 random render/parse calls each "
               "with seeded start skews, yields and dwell times inside the store's critical section; one trace per run; every call is "
               "non-trivial (its result is compared with the same call executed alone on a fresh parser); runs alternate the lazy and the on-demand store, include a partial that recurses through a data-chosen name, and write through dawdling sinks; thorough: TLAPS proof of the safety invariants for any number of threads")
    ck.assumptions = ["real-thread schedule coverage is statistical (seeded); interleavings are exhaustive in the model only",
                      "event order is the order of the recorder's mutex; Miss events are logged from inside the store's critical section",
                      "a deadlock is detected by a 30 s watchdog (missing Return events)"]
    ck.model_stage("interleavings", "MC_C20", "MC_C20_quick.cfg" if ck.tier == "quick" else "MC_C20_thorough.cfg",
                   tlc_workers=8, timeout=3000)
    runs = "150" if ck.tier == "quick" else "1500"
    ck.trace_stage("realthreads", ["threads", "--runs", runs], "Trace_Threads", "Trace_Threads.cfg", heap="8g", timeout=3000)
    if ck.tier == "thorough":
        # TLAPS: mutual exclusion, at most one compile per name, no poisoned lock, cache = declarative meaning and
        # schedule-independent results for ANY number of threads, names and calls (inductive invariant)
        ck.proof_stage("unbounded-proof", "LiquidPartials_proofs", ["LiquidPartials", "LiquidPartialsBase"])


PROPS = {"C01": c01, "C02": c02, "C03": c03, "C04": c04, "C06": c06, "C07": c07, "C08": c08, "C09": c09, "C10": c10, "C11": c11, "C12": c12, "C13": c13, "C14": c14, "C15": c15, "C16": c16, "C17": c17, "C19": c19, "C20": c20, "C05": c05, "C18": c18}


def replay_file(prop, path):
    with open(path) as f:
        fl = json.load(f)
    rec = fl.get("rec")
    if rec is None:
        log("replay file %s is a TLC counterexample of the specification; re-run the check to reproduce" % path)
        return 1
    driver.build_harness()
    p = subprocess.run([driver.HARNESS, "replay", "--workers", "1"], input=json.dumps(rec) + "\n",
                       stdout=subprocess.PIPE, text=True)
    bad = [l for l in p.stdout.splitlines() if l.startswith("FAIL ")]
    for l in bad:
        log(l[:3000])
    if bad:
        log("VIOLATION property=%s replay=%s" % (prop, path))
        return 1
    log("replay of %s: implementation now agrees with the specification" % path)
    return 0


def main(argv):
    if len(argv) < 2 or argv[0] not in PROPS:
        print(__doc__ or "usage: check <Cxx> <quick|thorough> | check <Cxx> --replay <file>")
        return 2
    prop = argv[0]
    try:
        if argv[1] == "--replay":
            return replay_file(prop, argv[2])
        tier = argv[1]
        seed = int(os.environ.get("VERIF_SEED", "1") or 1)
        driver.build_harness()
        ck = Check(prop, tier, seed)
        PROPS[prop](ck)
        return ck.finish()
    except ToolError as e:
        log("TOOL-ERROR: %s" % e)
        return 2
