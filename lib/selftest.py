#!/usr/bin/env python3
"""bin/selftest: validates the machinery itself (not a registered check).
 1. specification mutants: deliberately wrong variants of the modules; TLC must report the named invariant/property violated
 2. corrupted traces: one field flipped / one event dropped / two events swapped; the trace specification must reject
Exit 0 iff every mutant is killed and every corrupted trace is rejected."""
import json, os, shutil, subprocess, sys, glob
sys.path.insert(0, os.path.dirname(os.path.abspath(__file__)))
import driver

SPEC = driver.SPEC
MUT = os.path.join(driver.WORK, "mutants")

# (name, module file, old text, new text, MC module, cfg, what must be violated)
SPEC_MUTANTS = [
 ("sandbox-delegates-to-parent", "LiquidRuntime.tla",
  '[] t.kind = "sandbox" -> IF p[1] \\in DOMAIN t.m THEN TryFindIn(t.m, p) ELSE None\n      [] OTHER              -> IF p[1] \\in DOMAIN t.m THEN TryFindIn(t.m, p)',
  '[] t.kind = "sandbox" -> IF p[1] \\in DOMAIN t.m THEN TryFindIn(t.m, p) ELSE ChainTryGet(Rest(s), p)\n      [] OTHER              -> IF p[1] \\in DOMAIN t.m THEN TryFindIn(t.m, p)',
  "MC_C18", "MC_C18_quick.cfg", "Inv"),
 ("limit-clamped-against-len", "LiquidInterp.tla",
  "      l == IF lim.has THEN Min(lim.n, n - o) ELSE n - o\n      drained == SubSeq(items, o + 1, n)",
  "      l == IF lim.has THEN Min(lim.n, n) ELSE n - o\n      drained == SubSeq(items, o + 1, n)",
  "MC_C05", "MC_C05_quick.cfg", "Inv"),
 ("interrupt-not-reset", "LiquidInterp.tla",
  '                                 !.regs = SetTop(st1.regs, [Top(st1.regs) EXCEPT !.intr = "none"])]\n         IN IF intr = "break" \\/ o.i = Len(o.items) THEN Advance(Pop(st2))',
  '                                 !.regs = st1.regs]\n         IN IF intr = "break" \\/ o.i = Len(o.items) THEN Advance(Pop(st2))',
  "MC_C05", "MC_C05_quick.cfg", "BreakEndsInnermostOnly"),
 ("write-after-sink-failure", "LiquidInterp.tla",
  '       THEN [st EXCEPT !.sink = [st.sink EXCEPT !.calls = c, !.failed = TRUE],\n                       !.status = "err", !.ctl = <<>>]',
  '       THEN [st EXCEPT !.sink = [st.sink EXCEPT !.calls = c, !.failed = TRUE]]',
  "MC_C10", "MC_C10_quick.cfg", "Inv"),
 ("lock-released-before-insert", "LiquidPartials.tla",
  'ReadSource(t) == /\\ pc[t] = "read"',
  'ReadSource(t) == /\\ pc[t] = "read" /\\ lock\' = NoThread',
  "MC_C20", "MC_C20_quick.cfg", None),
 ("tab-not-whitespace", "LiquidText.tla",
  "GrammarWs == {SP, TAB, LF, CR}", "GrammarWs == {SP, LF, CR}",
  "MC_C03", "MC_C03_quick.cfg", "Inv"),
 ("equality-asymmetric-for-booleans", "LiquidCompare.tla",
  "    [] y.k = \"bool\" -> y.b\n    [] x.k = \"bool\" -> x.b\n    [] OTHER -> FALSE\n\nIsWs",
  "    [] y.k = \"bool\" -> y.b\n    [] OTHER -> FALSE\n\nIsWs",
  "MC_C11", "MC_C11_quick.cfg", "Laws"),
 ("uniq-keeps-last", "LiquidFiltersArr.tla",
  "ELSE IF \\E j \\in 1..Len(kept) : ValueEq(kept[j], a[i]) THEN UniqFrom(a, i + 1, kept)",
  "ELSE IF \\E j \\in 1..Len(kept) : kept[j] = a[i] THEN UniqFrom(a, i + 1, kept)",
  "MC_C14", "MC_C14_quick.cfg", "Laws"),
]


# specification mutants that no TLC invariant sees: the specification is a transcription of the code, so the REPLAY must
# disagree.  (name, module file, old, new, MC module, cfg)
REPLAY_MUTANTS = [
 ("lex-integer-before-float", "LiquidLex.tla",
  "       [] flo # 0 -> [e |-> flo,", "       [] int = 0 /\\ flo # 0 -> [e |-> flo,", "MC_Lex", "MC_Lex_self.cfg"),
 ("lex-keyword-needs-word-boundary", "LiquidLex.tla",
  "Kw(t, p, ws) == KwFrom(t, p, ws, 1)",
  "Kw(t, p, ws) == LET q == KwFrom(t, p, ws, 1) IN IF q # 0 /\\ ws[1] \\in {\"nil\", \"empty\", \"blank\", \"true\"} /\\ IdCont(t, q) THEN 0 ELSE q",
  "MC_Lex", "MC_Lex_self.cfg"),
 ("args-include-rejects-stray-token", "LiquidArgs.tla",
  "            ELSE IF Has(ts, i + 4) THEN Reject ELSE [ok |-> TRUE, args |-> a]", "            ELSE Reject", "MC_Lex", "MC_Lex_self.cfg"),
]


def run_replay_mutants():
    ok = True
    keep = driver.SPEC
    for name, mod, old, new, mc, cfg in REPLAY_MUTANTS:
        d = os.path.join(MUT, name)
        shutil.rmtree(d, ignore_errors=True)
        os.makedirs(d)
        for f in os.listdir(keep):
            if f.endswith(".tla") or f.endswith(".cfg"):
                shutil.copy(os.path.join(keep, f), d)
        src = open(os.path.join(d, mod)).read()
        if old not in src:
            print("RMUTANT %-32s NOT APPLICABLE (specification text changed): fix lib/selftest.py" % name)
            ok = False
            continue
        open(os.path.join(d, mod), "w").write(src.replace(old, new, 1))
        with open(os.path.join(keep, "mutants", name + ".txt"), "w") as f:
            f.write("module %s\n--- replaced ---\n%s\n--- by ---\n%s\n--- must ---\nmake the replay on the real crates disagree (model %s / %s)\n" % (mod, old, new, mc, cfg))
        driver.SPEC = d
        try:
            ck = driver.Check("SELF", "quick", 1)
            ck.replay_stage(name, mc, cfg, tlc_workers=8)
            n = len(ck.fails)
        except Exception as e:       # a mutant that TLC itself rejects is not the point here
            n = 0
            print("RMUTANT %-32s tool error: %s" % (name, str(e)[:300]))
        finally:
            driver.SPEC = keep
        print("RMUTANT %-32s %s (%d disagreements with the implementation)" % (name, "killed" if n > 0 else "SURVIVED", n))
        ok = ok and n > 0
        shutil.rmtree(d, ignore_errors=True)
    return ok


def run_spec_mutants():
    ok = True
    for name, mod, old, new, mc, cfg, expect in SPEC_MUTANTS:
        d = os.path.join(MUT, name)
        shutil.rmtree(d, ignore_errors=True)
        os.makedirs(d)
        for f in os.listdir(SPEC):
            if f.endswith(".tla") or f.endswith(".cfg"):
                shutil.copy(os.path.join(SPEC, f), d)
        src = open(os.path.join(d, mod)).read()
        if old not in src:
            print("MUTANT %-32s NOT APPLICABLE (specification text changed): fix lib/selftest.py" % name)
            ok = False
            continue
        text = src.replace(old, new, 1)
        if mod == "LiquidPartials.tla":
            text = text.replace('                 /\\ UNCHANGED <<req, lock, cache, compiles, done>>\nCompile(t)', '                 /\\ UNCHANGED <<req, cache, compiles, done>>\nCompile(t)')
            text = text.replace('Insert(t) == /\\ pc[t] = "insert"', 'Insert(t) == /\\ pc[t] = "insert" /\\ lock = NoThread /\\ lock\' = t')
            text = text.replace('             /\\ UNCHANGED <<req, res, lock, compiles, done>>\nRelease', '             /\\ UNCHANGED <<req, res, compiles, done>>\nRelease')
        open(os.path.join(d, mod), "w").write(text)
        with open(os.path.join(SPEC, "mutants", name + ".txt"), "w") as f:
            f.write("module %s\n--- replaced ---\n%s\n--- by ---\n%s\n--- must violate ---\n%s (model %s / %s)\n" % (mod, old, new, expect or "an invariant", mc, cfg))
        cmd, env = driver.tlc_cmd(mc, cfg, workers=8, metadir=os.path.join(d, "meta"))
        env["JAVA_TOOL_OPTIONS"] = "-Djava.io.tmpdir=%s" % os.path.join(d, "tmp")
        os.makedirs(os.path.join(d, "tmp"), exist_ok=True)
        r = subprocess.run(["timeout", "900"] + cmd, cwd=d, env=env, stdout=subprocess.PIPE, stderr=subprocess.STDOUT, text=True)
        out = "\n".join(l for l in r.stdout.splitlines() if not l.startswith('<<"REPLAY"'))
        killed = r.returncode in (12, 13) and (expect is None or expect in out)
        print("MUTANT %-32s %s (TLC exit %d%s)" % (name, "killed" if killed else "SURVIVED", r.returncode,
              "" if killed else "; tail: " + out[-400:].replace("\n", " | ")))
        ok = ok and killed
        shutil.rmtree(d, ignore_errors=True)
    return ok


def corrupt_variants(lines):
    """(label, lines) variants of a good trace"""
    import copy
    out = []
    evs = [json.loads(l) for l in lines]
    # flip one field in a middle event (a boolean if the event has one, else a counter)
    done = False
    for i, e in enumerate(evs):
        if e.get("ok") is False and e.get("msglen", 0) > 0:      # a rejection that loses its message
            e2 = copy.deepcopy(evs); e2[i]["msglen"] = 0; out.append(("empty message in event %d" % (i + 1), e2)); done = True; break
    for want_bool in (True, False):
        for i, e in enumerate(evs):
            if i > len(evs) // 3 and not done:
                for k, v in sorted(e.items(), key=lambda kv: kv[0] != "ok"):      # an "ok" flag first: it always matters
                    if want_bool and isinstance(v, bool) and k == "ffok":
                        continue          # irrelevant once the sink has failed: flipping it is not a corruption
                    if want_bool and isinstance(v, bool):
                        e2 = copy.deepcopy(evs); e2[i][k] = not v; out.append(("flip %s of event %d" % (k, i + 1), e2)); done = True; break
                    if not want_bool and isinstance(v, int) and not isinstance(v, bool) and k in ("n", "took", "inside"):
                        e2 = copy.deepcopy(evs); e2[i][k] = v + 1; out.append(("bump %s of event %d" % (k, i + 1), e2)); done = True; break
    # drop a Return-like event
    for i, e in enumerate(evs):
        if e.get("e") == "Return" and i > 2:
            out.append(("drop event %d (Return)" % (i + 1), evs[:i] + evs[i + 1:])); break
    # swap two adjacent events of the same thread (or of the single-threaded sink / parse traces)
    for i in range(2, len(evs) - 1):
        a, b = evs[i], evs[i + 1]
        if a.get("e") != b.get("e") and a.get("e") in ("Call", "Write", "Miss") and a.get("t") == b.get("t"):
            e2 = evs[:i] + [b, a] + evs[i + 2:]
            out.append(("swap events %d and %d" % (i + 1, i + 2), e2)); break
    return [(label, [json.dumps(e) + "\n" for e in ev]) for label, ev in out]


def frames_variants(lines):
    """corruptions of a scope-frame hook trace (Trace_Frames)"""
    import copy
    evs = [json.loads(l) for l in lines]
    out = []
    def first(pred, start=0):
        for i in range(start, len(evs)):
            if pred(i, evs[i]):
                return i
        return None
    mid = len(evs) // 3
    i = first(lambda i, e: e["e"] == "Ask" and not e["has"] and evs[i + 1]["e"] == "Ask", mid)
    e2 = copy.deepcopy(evs); e2[i]["has"] = True; out.append(("delegating Ask %d claims has" % (i + 1), e2))
    out.append(("drop delegated Ask %d (frame skipped)" % (i + 2), evs[:i + 1] + evs[i + 2:]))
    i = first(lambda i, e: e["e"] == "Ask" and e["has"], mid)
    e2 = copy.deepcopy(evs); e2[i]["has"] = False; out.append(("answering Ask %d claims miss" % (i + 1), e2))
    i = first(lambda i, e: e["e"] == "SetGlobal" and e["stored"])
    e2 = copy.deepcopy(evs); e2[i]["stored"] = False; out.append(("global frame %d does not store" % (i + 1), e2))
    j = first(lambda k, e: e["e"] == "SetGlobal" and not e["stored"])
    if j is not None:
        e2 = copy.deepcopy(evs); e2[j]["stored"] = True; out.append(("non-global frame stores (event %d)" % (j + 1), e2))
    i = first(lambda i, e: e["e"] == "New" and e["kind"] == "plain" and e["parent"] != 0 and evs[i - 1]["e"] != "New", mid)
    if i is not None:
        e2 = copy.deepcopy(evs); e2[i]["parent"] = e2[i]["parent"] - 1; out.append(("frame %d built on another parent" % (i + 1), e2))
    i = first(lambda i, e: e["e"] == "New" and e["kind"] == "sandbox")
    if i is not None:
        e2 = copy.deepcopy(evs); e2[i]["kind"] = "plain"; out.append(("sandbox %d recorded as plain scope" % (i + 1), e2))
    i = first(lambda i, e: e["e"] == "GetIndex" and e["answered"])
    if i is not None:
        e2 = copy.deepcopy(evs); e2[i]["has"] = not e2[i]["has"]; out.append(("counter read %d disagrees with stores" % (i + 1), e2))
    i = first(lambda i, e: e["e"] == "Ask" and evs[i - 1]["e"] == "Ask" and not evs[i - 1]["has"], mid)
    e2 = copy.deepcopy(evs); e2[i]["key"] = e2[i]["key"] + "x"; out.append(("delegated Ask %d asks another name" % (i + 1), e2))
    return [(label, [json.dumps(e, separators=(",", ":")) + "\n" for e in ev]) for label, ev in out]


def validate(module, cfg, path):
    res = driver.run_tlc("selftest_trace", module, cfg, sink=None, workers=1, timeout=600, deque=True, heap="3g",
                         env_extra={"TRACE": path})
    return res.exit


def run_trace_corruptions():
    ok = True
    h = driver.HARNESS
    os.makedirs(MUT, exist_ok=True)
    jobs = []
    # small good traces
    corpus = os.path.join(MUT, "corpus.json")
    open(corpus, "w").write(json.dumps({"p": "C10", "kind": "render", "prog": [{"t": "text", "c": "ab"}, {"t": "out", "x": {"e": "lit", "v": {"k": "int", "n": 42}}}, {"t": "text", "c": "cd"}], "parts": [], "data": []}) + "\n")
    t1 = os.path.join(MUT, "sink.ndjson")
    subprocess.run([h, "trace", "sink", "--corpus", corpus, "--out", t1, "--seed", "1"], stdout=subprocess.DEVNULL)
    jobs.append(("Trace_Sink", "Trace_Sink.cfg", t1))
    t2 = os.path.join(MUT, "threads.ndjson")
    subprocess.run([h, "trace", "threads", "--out", t2, "--seed", "3", "--runs", "3"], stdout=subprocess.DEVNULL)
    jobs.append(("Trace_Threads", "Trace_Threads.cfg", t2))
    t3 = os.path.join(MUT, "soups.ndjson")
    subprocess.run([h, "trace", "soups", "--out", t3, "--seed", "1", "--cases", "20", "--lexlen", "0"], stdout=subprocess.DEVNULL)
    jobs.append(("Trace_Calls", "Trace_Calls.cfg", t3))
    # scope-frame hook trace of real renders (for / include / render / assign / increment)
    t4 = os.path.join(MUT, "frames")
    for old in glob.glob(t4 + "*"):
        os.remove(old)
    recs = [{"p": "C04", "kind": "source", "expect": {"ok": True, "anyout": True}, "policies": ["eager"], "data": {"a": {"k": "str", "s": "d"}},
             "parts": {"p": {"ok": True, "body": [{"t": "out", "x": {"e": "var", "idx": [], "name": "a"}}, {"t": "if", "cond": {"c": "truthy", "x": {"e": "var", "idx": [], "name": "b"}}, "then": [{"t": "text", "c": "+"}], "else": [{"t": "text", "c": "-"}]}, {"t": "assign", "var": "b", "x": {"e": "lit", "v": {"k": "int", "n": 1}}}]}},
             "src": "{{a}}{% assign b = 2 %}{% for a in (1..2) %}{{a}}{{b}}{% assign a = 5 %}{% increment c %}{% include 'p' a: 3 %}{% endfor %}"
                    "{% render 'p', a: 4 %}{{c}}{% increment a %}{{a}}{{b}}{% decrement c %}"}]
    pr = subprocess.run([h, "replay", "--workers", "1", "--timeout-ms", "20000"], input="".join(json.dumps(r) + "\n" for r in recs),
                        env=dict(os.environ, LIQUID_VERIF_TRACE=t4), text=True, stdout=subprocess.PIPE, stderr=subprocess.PIPE)
    got = sorted(glob.glob(t4 + ".*"))
    if "FAIL" in pr.stdout or not got:
        print("TRACE  Trace_Frames   could not record a hook trace: %s" % pr.stdout[-400:])
        return False
    shutil.copy(got[0], t4 + ".ndjson")
    jobs.append(("Trace_Frames", "Trace_Frames.cfg", t4 + ".ndjson"))
    for module, cfg, path in jobs:
        lines = open(path).readlines()[:4000]
        if not lines[-1].startswith('{"e":"End"'):
            lines.append('{"e":"End"}\n')
        good = path + ".good"
        open(good, "w").writelines(lines)
        rc = validate(module, cfg, good)
        print("TRACE  %-14s good trace (%d events): %s" % (module, len(lines), "accepted" if rc == 0 else "REJECTED (exit %d)" % rc))
        ok = ok and rc == 0
        for label, var in (frames_variants(lines) if module == "Trace_Frames" else corrupt_variants(lines)):
            bad = path + ".bad"
            open(bad, "w").writelines(var)
            rc = validate(module, cfg, bad)
            rejected = rc in (10, 12, 13)
            print("TRACE  %-14s %-34s %s" % (module, label, "rejected" if rejected else "ACCEPTED (exit %d)" % rc))
            ok = ok and rejected
    return ok


def main():
    driver.build_harness()
    a = run_spec_mutants()
    c = run_replay_mutants()
    b = run_trace_corruptions()
    print("SELFTEST %s" % ("ok" if a and b and c else "FAILED"))
    return 0 if a and b and c else 1


if __name__ == "__main__":
    sys.exit(main())
