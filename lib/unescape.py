import sys
# turn TLC PrintT lines  <<"REPLAY", "....">>  into raw JSON lines
PFX = '<<"REPLAY", "'
SFX = '">>'
def unescape(line):
    s = line[len(PFX):-len(SFX)]
    return s.replace('\\"', '"').replace('\\\\', '\\')
if __name__ == '__main__':
    out = sys.stdout
    for line in sys.stdin:
        line = line.rstrip('\n')
        if line.startswith(PFX) and line.endswith(SFX):
            out.write(unescape(line)); out.write('\n')
