#!/usr/bin/env python3
"""Cross-checks LiquidBig.tla (TLC prints a table over a boundary operand pool)
against Python's big integers.  A disagreement is a tool error (exit 2)."""
import json, os, subprocess, sys, re
sys.path.insert(0, os.path.dirname(os.path.abspath(__file__)))
import driver

def main():
    rows = []
    class Sink:
        def write(self, s):
            s = s.strip()
            if s:
                rows.append(json.loads(s)["row"])
    res = driver.run_tlc("bigcheck", "MC_Big", "MC_Big.cfg", sink=Sink(), workers=4, timeout=600)
    if res.exit != 0:
        print("TOOL-ERROR: LiquidBig self-check failed in TLC\n" + driver.tlc_tail(res))
        return 2
    bad = 0
    for r in rows:
        a, b = int(r["a"]), int(r["b"])
        def trunc_div(x, y):
            q = abs(x) // abs(y)
            return q if (x < 0) == (y < 0) else -q
        exp = {"add": str(a + b), "sub": str(a - b), "mul": str(a * b),
               "div": "nan" if b == 0 else str(trunc_div(a, b)),
               "rem": "nan" if b == 0 else str(a - trunc_div(a, b) * b),
               "cmp": (a > b) - (a < b)}
        for k, v in exp.items():
            if r[k] != v:
                bad += 1
                print("LiquidBig disagrees with Python: %s(%s, %s) = %s, expected %s" % (k, a, b, r[k], v))
    print("LiquidBig cross-check: %d operand pairs, %d disagreements" % (len(rows), bad))
    return 2 if bad or not rows else 0

if __name__ == "__main__":
    sys.exit(main())
