#!/usr/bin/env python3
"""Prints, from the evidence files, one line per property and stage: states / replays or traces / wall."""
import json, os, sys
ev = os.path.join(os.path.dirname(os.path.dirname(os.path.abspath(__file__))), "evidence")
print("| | tier | stage | states | replayed / traces | wall s |")
print("|---|---|---|---|---|---|")
for i in range(1, 21):
    p = "C%02d" % i
    try:
        d = json.load(open(os.path.join(ev, p + ".json")))
    except Exception as e:
        print("| %s | missing |" % p); continue
    stages = d.get("coverage", {}).get("stages") or d.get("stages") or []
    for s in stages:
        n = s.get("replayed", s.get("traces", s.get("tlapm_obligations_proved", "")))
        print("| %s | %s | %s | %s | %s | %s |" % (p, d.get("tier"), s.get("stage"), s.get("states", ""), n, s.get("wall_s", "")))
    print("| %s | %s | **total** | %s | %s | %s |" % (p, d.get("tier"), d["coverage"].get("states"), d["coverage"].get("traces_validated_against_impl"), d.get("wall_s")))
