#!/usr/bin/env python3
"""Regenerates /verif/MANIFEST.json from the table below (run by hand after
adding a check; MANIFEST.json is committed)."""
import json, os, sys
VERIF = os.path.dirname(os.path.dirname(os.path.abspath(__file__)))

TECH_A = "explicit TLA+ specification checked with TLC; every TLC-generated behaviour replayed into the real crates and compared"
TECH_AB = TECH_A + "; traces recorded from the real code validated against a TLA+ trace specification with TLC"

CLAIMS = {
 "C01": dict(
    text="LiquidSyntax models the parser protocol as a pushdown machine over the element stream of the lax grammar (open blocks with their modes, raw and comment scanning, else/elsif/when contexts, EOI inside a block = unclosed) ending in accept / reject / unspecified; TLC enumerates every element sequence up to the bound, checks that the machine is never stuck (no expect can fire) and that accept implies every block closed, and every sequence is parsed by the real parser under three configurations and compared with the verdict (a panic, abort or hang is a disagreement of the record in flight; rejections must carry a message). Random longer token soups, lexical sequences inside host tags, nesting towers to depth 32 and character-level mutations of valid templates are parsed and their Call/Return trace validated with TLC (Trace_Calls): a call without a Return, or a rejection without a message, has no explanation. LiquidLex transcribes the inner grammar (grammar.pest) as the PEG it is and LiquidArgs every stdlib tag's argument consumer; TLC enumerates every concatenation of lexical pieces inside 15 host tags, derives accept / reject (and, without filters, the program LiquidInterp runs and its output) and the harness parses and renders the same text. Comments from text (nested, malformed headers and end tags, invalid liquid inside) are decided by LiquidParse (stage `comments-from-text`); inputs of 16 - 96 KB are part of the soups.",
    note="bounded: element sequences <= 4 structural / <= 2 full alphabet (quick), <= 5 / <= 3 (thorough); argument texts of <= 2 pieces (generic 44-piece alphabet) and <= 2 / 3 pieces of the host's own vocabulary; four repaired defects (EOI inside nested block in a comment, 20-digit integer literal, error-path re-parse).",
    tech=TECH_AB, ref="DESIGN.md 7 C01"),
 "C02": dict(
    text="LiquidFilterSig is the signature table of every registered filter; TLC spans the space filter x input x argument tuple over a type-confused value pool and states the outcome class (arity outside the signature: rejected; inside: returns a value or an error); every case is executed on the real filters through a template in a build with overflow checks, requiring a return, valid UTF-8 and the stated class; a corpus of tags and blocks with edge arguments is rendered the same way. The LiquidInterp machine of C04 - C10 has no third outcome besides Ok and Err, and every program of those corpora is rendered as well; the functional filter specifications of C13 - C17 decide values where they exist.",
    note="bounded: arity <= 2, 45-value pool (arity-2 arguments from 12 values in the quick tier); hang detection is a watchdog; memory safety of from_utf8_unchecked is not modelled, the bytes the sink receives are validated; two repaired defects (cycle without values, tablerow cols:0).",
    tech=TECH_A, ref="DESIGN.md 7 C02"),
 "C03": dict(
    text="LiquidText defines templates as item sequences with independent trim flags on every delimiter side, their source text and, declaratively, their output (a text segment loses exactly its maximal whitespace run towards a trimming delimiter; raw bodies verbatim; comments nothing and no effect); TLC enumerates the bounded template space and checks identity on plain text, that only whitespace is ever removed and that the grammar-shaped whitespace class refines the property's; every template is rendered by the real parser (with a probe that exposes side effects of comments) and compared byte for byte.",
    note="bounded: whitespace runs <= 2 (quick) / 3 (thorough), inner padding 0..1 / 0..3, one or two markups per template; two defects found by this check were repaired (tab not whitespace; raw body ending in a trimming pseudo-tag).",
    tech=TECH_A, ref="DESIGN.md 7 C03"),
 "C04": dict(
    text="TLC enumerates every program up to the node bound over a scoping alphabet that reuses the same names as caller data, assigned/captured variables, loop variables, counters and include arguments, runs each on the LiquidInterp machine checking innermost-binding-wins, precedence, data-untouched, global-written-only-by-assign/capture and clean unwinding in every state, and the harness renders every program on the real parser and compares output or error; the scope-frame hook events of those renders are validated against LiquidFrames (Trace_Frames.tla); MC_Gen adds random deeper programs.",
    note="bounded: <=3 nodes (quick), <=4 nodes and 3 names (thorough); values are short ASCII strings and small integers; the AST-to-source printer of the harness is trusted.",
    tech=TECH_AB, ref="DESIGN.md 7 C04"),
 "C05": dict(
    text="TLC enumerates every (collection kind, length, offset, limit, reversed, cols) loop program and every break/continue placement in two nested loops, checks on the LiquidInterp machine that the implementation-shaped window equals the declarative selection, that the loop object is truthful in every iteration and that a break ends exactly the innermost for loop; the harness renders every program and compares the printed items and loop fields.",
    note="bounded: lengths 0..6, offset/limit 0..8, cols 1..4, nested lengths 1..3 (quick); 0..9 / 0..11 / 1..5 / 1..4 (thorough); non-negative literal attributes.",
    tech=TECH_A, ref="DESIGN.md 7 C05"),
 "C06": dict(
    text="TLC runs every conditional program of the enumerated families on the LiquidInterp machine and checks in the model that the printed branch is the first arm whose condition holds under a declarative (order-free) reading of the condition tree, that unless negates, that or/and group as or-of-ands, that case picks the first arm holding an equal value and that equality/ordering are coherent on the pool; the harness renders every program on the real parser and compares. LiquidParse (element scan of the lax grammar with trim markers + the block protocol of every stdlib block, on LiquidLex / LiquidArgs) turns whole template texts into LiquidInterp programs: every sequence of up to 4 (thorough 5) elements per construct family and 2 (3) over the 43-element alphabet is parsed and rendered from text in the model and by the real crates.",
    note="bounded: 32-value pool, chains <= 4 arms, case <= 3 arms, and/or chains <= 4 atoms; multi-key object ordering excluded (unspecified iteration order).",
    tech=TECH_A, ref="DESIGN.md 7 C06"),
 "C07": dict(
    text="TLC enumerates every variable path up to the length bound over a nested datum and every array index around both ends, evaluates each on the LiquidInterp machine (model/find.rs semantics in LiquidValues) and checks zero-based/negative index meaning, first/last/size meaning and error-on-missing-step against declarative formulas; literal denotation is specified by canonical-decimal operators with an explicit digit-wise 64-bit range test; the harness renders every path and literal on the real parser and compares output or error. From characters: LiquidLex lexes every concatenation of up to 2 (3) generic pieces and 3 value pieces inside {{ }} and assign, LiquidInterp evaluates the resulting expression, the real crates must print the same.",
    note="bounded: paths <= 3 steps (quick) / 4 (thorough), arrays 0..5, ASCII; multi-key object printing only required to succeed.",
    tech=TECH_A, ref="DESIGN.md 7 C07"),
 "C08": dict(
    text="TLC runs every caller x partial-body scenario on the LiquidInterp machine (include = plain layer over the caller's scope and registers; render = sandbox + global layer + fresh registers, per iteration for render-for) and checks in every state that a rendered partial cannot change the caller's layers or registers (counters excepted) and resolves only its arguments and own assignments, that scopes unwind cleanly and that errors arise only at executed tags; the harness renders every scenario on the real parser and compares.",
    note="bounded: partial bodies <= 1 statement (quick) / 2 (thorough) over 12 statements, nesting depth 2 (p -> p2), 17 invocation forms.",
    tech=TECH_A, ref="DESIGN.md 7 C08"),
 "C19": dict(
    text="The partial store is part of the LiquidInterp state with one lookup rule per policy (eager: compiled map incl. failures; lazy: cache filled on first use incl. failures; on-demand: nothing kept); TLC checks on every scenario that each policy returns what the sources declare, that all three produce the same result, that a store warmed by earlier renders changes nothing and that errors arise only at executed tags; every scenario is then rendered 3 times on each of three real parsers and compared with the specification's result. Partials given as source text (blank edges, trim markers, broken sources) are parsed by LiquidParse and included / rendered under the three policies, twice (stage `partials-from-text`).",
    note="bounded as C08; in-memory source only.",
    tech=TECH_A, ref="DESIGN.md 7 C19"),
 "C09": dict(
    text="A history level over LiquidInterp: BeginRender rebuilds every per-render variable and keeps only the parser's partial store; TLC explores every history of render calls (successful and failing midway) and checks that each call's result equals the function of (template, data) computed from a fresh state and that nothing but the store survives; the harness replays every history on one shared real Parser and its Templates, and on a freshly built parser, comparing every call with the specification. Templates that use filters (which LiquidInterp does not evaluate) are covered by TLC-enumerated `free` histories: every call on the shared parser must equal the same call executed alone on a fresh parser in a fresh thread (MC_C09F).",
    note="bounded: histories of 3 calls over 3 templates x 3 data x 3 template triples x {lazy, eager} exhaustively; length 6 by random walks (thorough).",
    tech=TECH_A, ref="DESIGN.md 7 C09"),
 "C10": dict(
    text="Model: LiquidInterp's sink fails at every logical write k of every corpus program; TLC checks accepted-bytes-are-a-prefix of the fault-free run, error-iff-failed, no write after failure and stream = buffered for k = 0. Implementation: the harness drives the real render_to with a sink wrapper failing at every physical call k (whole-buffer and byte-at-a-time modes) and records every call; TLC validates the recorded trace against LiquidSink via Trace_Sink.tla (every event must be an enabled action; prefix invariant evaluated at every step; acceptance by postcondition).",
    note="bounded corpus (267 programs quick / ~3000 thorough, thinned to 1500 for tracing); trusted: the sink wrapper's logging; fault-free output equality with the specification is established by the replay stage.",
    tech=TECH_AB, ref="DESIGN.md 7 C10"),
 "C11": dict(
    text="LiquidCompare defines Liquid equality and ordering over the whole value universe with exact arithmetic (LiquidBig integers, doubles as rationals or inf/nan, code-point strings, date-times as instant + offset, objects as order-free functions); TLC checks reflexivity (NaN excepted), symmetry, </> duality, <=/>= consistency, equal-never-strictly-ordered, integer/float equality up to 2^53 and chronological order across offsets on every ordered pair of the pool; every pair is then evaluated on the real code through ValueViewCmp, ValueCow (owned, borrowed, mixed) and through if / case / contains / uniq templates, with each value built twice independently, in two passes of separate processes, and compared with the specification's answer.",
    note="bounded: 66-value pool, all ordered pairs (triples are not enumerated); one repaired defect (hash-order dependent object ordering).",
    tech=TECH_A, ref="DESIGN.md 7 C11"),
 "C12": dict(
    text="LiquidViews defines the observation table of a datum (type name, printed form, truthy / default / empty / blank, kind predicates, size, equality against a probe set) independently of the Rust type that carries it; TLC enumerates the generated values and struct instances, checks the table's own laws and emits each with its table; the harness materialises every datum through every view and conversion (owned, borrowed, Option, serde in both directions, JSON text, native collections, derived structs and their serde twins, also rendered in a template) and requires each to present exactly that table; integers across the i64 / u64 boundaries must arrive exactly, be rejected, or arrive as the nearest float.",
    note="bounded: values to depth 2 (representative slice quick, full thorough), one struct family; one repaired defect (from_value turned '10' into 10) and one recorded finding (dates become strings through serde), matched by value kind and view.",
    tech=TECH_A, ref="DESIGN.md 7 C12"),
 "C13": dict(
    text="LiquidFiltersStr defines every string filter as a recursive TLA+ function on sequences of Unicode scalar values (grapheme clusters for truncate) and chains as composition; TLC enumerates the bounded input space, evaluates the documented function for every case and checks the algebraic laws of the property (split/join identity, strip = lstrip o rstrip, truncate bound, slice contiguity, size in characters, capitalize touches only the first character, replace_first is a prefix of replace, default) as invariants; every case is replayed through {{ in | filter: args | __dump }} on the real parser and compared structurally.",
    note="bounded: strings <= 3 (quick) / 4 (thorough) over a 10-character adversarial alphabet, arguments <= 1 / 2; two recorded findings (truncate measures in bytes) are matched by filter name and non-ASCII input shape; two repaired defects (size, slice).",
    tech=TECH_A, ref="DESIGN.md 7 C13"),
 "C14": dict(
    text="LiquidFiltersArr specifies sort / sort_natural as an explicit stable insertion sort with the nil-last comparator and, as property layer, permutation + sortedness + stability + idempotence + nil-last, and uniq / compact / concat / map / where / first / last / size / slice / join / reverse by contract; TLC checks the property layer against the implementation-shaped layer on every enumerated array and emits every case for replay on the real filters (structural comparison through a dump filter); random arrays of up to 60 elements in adversarial initial orders and type mixes are evaluated by the real filters and the recorded (input, output) events are validated against the specification's relation with TLC (Trace_Eval).",
    note="bounded: arrays <= 4 (quick) / 5 (thorough) exhaustively, objects arrays <= 3 / 4; 400 / 4000 random arrays up to length 60; for incomparable elements only a permutation is demanded.",
    tech=TECH_AB, ref="DESIGN.md 7 C14"),
 "C15": dict(
    text="LiquidBig gives exact integers beyond 32 bits in TLA+ (cross-checked against Python at setup); LiquidFiltersMath states, for every (filter, a, b), the RELATION an outcome must satisfy: exact integer result when it fits 64 bits, otherwise error or a double near the float-path result, never anything else; quotient/remainder identity with |r| < |b|, zero divisor an error; float operands within half an ulp of the exact rational; ceil/floor/round the neighbouring integer with ties away from zero. TLC checks that no allowed outcome is the two's-complement wrap, that checked arithmetic is allowed and that division and remainder fit together, over the whole pool; the real filters are then run on every enumerated case, their outcomes recorded exactly (decimal text, doubles from their bits) and validated against the relation with TLC (Trace_Math).",
    note="bounded: the property's operand pool x 3 representations x 7 binary + 4 unary filters, k/8 pairs for |k| <= 12 (quick) / 40 (thorough); the harness build has overflow checks on, so wrapping arithmetic panics and is recorded as an unexplained outcome.",
    tech=TECH_AB, ref="DESIGN.md 7 C15"),
 "C16": dict(
    text="LiquidFiltersHtml defines escape, escape_once (look-ahead for the five entities), strip_html (four leftmost-shortest removal passes), url_encode (UTF-8 bytes outside [A-Za-z0-9._-] percent-escaped) and url_decode (+ as space, percent-decoding, strict UTF-8 validation) in TLA+; TLC enumerates the bounded input space and checks output safety, unescape-of-escape identity, escape_once idempotence and entity preservation, the url_encode charset, decode-of-encode identity and no-complete-tag-remains on every input; every case is replayed on the real filters and compared.",
    note="bounded: strings <= 4/5 (escape), <= 4 (url), <= 4/6 (strip_html) over the alphabets the property names, plus token-level sequences that reach the script/style/comment passes and near-entities.",
    tech=TECH_A, ref="DESIGN.md 7 C16"),
 "C17": dict(
    text="LiquidDates is an independent calendar (days-from-civil and back, weekday, day of year, %U/%W weeks, ISO week date) whose laws TLC checks on their own (round trip over +-2000 years, anchors, 4 January in week 1), the default printed form with its parser (round trip is an invariant) and an interpreter for strftime formats giving the documented meaning of every directive with flags, widths and fractional seconds (leading digits of the nanosecond field), unknown directives echoed, trailing % an error; TLC enumerates stamps x formats and the harness checks on the real code that the printed form parses back to the same date-time, that four other accepted spellings denote the same date-time, and that {{ ts | date: fmt }} equals the specification. The ordering clause (chronological regardless of offset) is decided by LiquidCompare on the date / date-time part of the C11 pool plus pairs whose local dates order against their instants (stage `ordering`).",
    note="bounded: the stamp and format sets listed in the evidence rule; composite directives with flags/widths and a few case-flag combinations are unspecified; two repaired defects (non-ASCII unknown directive panic, fraction digits padded on the wrong side).",
    tech=TECH_A, ref="DESIGN.md 7 C17"),
 "C18": dict(
    text="TLC explores every operation sequence of the explicit TLA+ specification LiquidRuntime up to the stated length from all 9 base maps, checks the declarative scope meaning against the delegation-chain form in every state, and every explored sequence is replayed on the real StackFrame/SandboxedStackFrame/GlobalFrame types with all lookups, roots, counters and register ownership compared after every operation. LiquidFrames refines the same runtime to one action per frame visited (tree of frames, delegation chains), TLC ties every completed chain to LiquidRuntime's declarative answer for all trees up to the frame bound, and the cfg(liquid_verif) hook events recorded during the replayed histories (and, thorough, during the repository's own test suite) are validated against it by Trace_Frames.tla.",
    note="bounded: length 3 (quick) / 4 exhaustive replay, 5 state-space over the reduced push alphabet, random walks of length 6 (thorough); frame trees of <= 5 frames x 2 names / <= 6 frames x 1 name for LiquidFrames; hook traces of every replayed length-3 history (quick: every k-th); values are scalars and one-key objects; trusted: TLC, the harness's encoding of observations.",
    tech=TECH_AB, ref="DESIGN.md 7 C18"),
 "C20": dict(
    text="LiquidPartials specifies the lazy partial store with threads, a lock and the cache, with check / read-source / compile / insert as separate steps inside the critical section; TLC checks mutual exclusion, at most one compile per name, schedule-independent results, no poisoning, deadlock freedom and (under weak fairness) that every call returns, over all interleavings. Real threads sharing one Parser and its Templates are then recorded (Call / Miss-inside-the-lock / Return events ordered by the recorder's own mutex) and the trace is validated against the specification with TLC: a second miss of a cached name, two threads inside the source, a result that differs from the sequential result, or a call that never returns has no explanation. Thorough: a TLAPS proof (proofs/LiquidPartials_proofs.tla, inductive invariant, all obligations discharged by tlapm from an empty cache on every run) establishes mutual exclusion, at most one compile per name, no poisoned lock, cache = declarative meaning and schedule-independent results for any number of threads, names and calls.",
    note="model: 2-3 threads x 2 calls x 3 names exhaustively; implementation: 150 (quick) / 1500 (thorough) seeded runs of 2..16 threads; schedule coverage on the real code is statistical.",
    tech=TECH_AB, ref="DESIGN.md 7 C20"),
}

NOT_YET = "specification and binding for this property are not built yet (work in progress, see DESIGN.md 13)"

def main():
    props = [json.loads(l) for l in open(os.path.join(VERIF, "properties.jsonl"))]
    checks = []
    for pid in sorted(CLAIMS):
        c = CLAIMS[pid]
        checks.append({
            "property_id": pid,
            "quick_cmd": "bin/check %s quick" % pid,
            "thorough_cmd": "bin/check %s thorough" % pid,
            "evidence_file": "/verif/evidence/%s.json" % pid,
            "replay_cmd_template": "bin/check %s --replay {path}" % pid,
            "engine": "tlc+harness",
            "level_claimed": {"category": "model_checking", "text": c["text"], "design_ref": c["ref"]},
            "level_note": c["note"],
            "technique": c["tech"],
        })
    repo_hooks = ["3836ed4", "a59be9a"]
    m = {
        "version": 1,
        "setup_cmd": "bin/setup",
        "hooks": {
            "guard": "--cfg liquid_verif",
            "enable": "the harness builds /repo by path with rustflags --cfg liquid_verif (harness/.cargo/config.toml); scope-frame events (crates/core/src/runtime/verif_trace.rs) are recorded only when LIQUID_VERIF_TRACE names a file; the C18 thorough tier also runs the repository's test suite with RUSTFLAGS=--cfg liquid_verif in a scratch target dir under /verif/.work",
            "baseline_off_cmd": "cd /repo && cargo test --workspace --no-fail-fast --offline",
            "source_commits": repo_hooks,
            "add_only": True,
        },
        "engines": [{
            "name": "tlc+harness", "path": "/verif/bin/check", "serves_properties": sorted(CLAIMS),
            "kind_free_text": "explicit TLA+ specifications under spec/ checked with TLC; behaviours emitted by TLC are replayed on the real crates by harness/ (Rust); traces recorded by the harness are validated against Trace_*.tla",
        }],
        "checks": checks,
        "not_applicable": [{"property_id": p["id"], "reason": NOT_YET} for p in props if p["id"] not in CLAIMS],
        "notes": "see DESIGN.md; known_findings.json lists repaired and recorded defects",
    }
    with open(os.path.join(VERIF, "MANIFEST.json"), "w") as f:
        json.dump(m, f, indent=1)

if __name__ == "__main__":
    main()
