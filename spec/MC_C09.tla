------------------------------ MODULE MC_C09 ------------------------------
(* History level on top of LiquidInterp for property C09 (rendering is     *)
(* repeatable): a shared parser (its partial store is the only thing that  *)
(* survives a render) and a set of parsed templates; a history is a        *)
(* sequence of render calls (template i, data j), successful or failing.   *)
EXTENDS LiquidInterp, Json

CONSTANTS MaxHist, TripleIds, Policy, EmitAll

Txt(c)  == [t |-> "text", c |-> c]
Out(x)  == [t |-> "out", x |-> x]
S(s)    == Lit(StrV(s))
N(n)    == Lit(IntV(n))
Assign_(n, x) == [t |-> "assign", var |-> n, x |-> x]
Inc(n)  == [t |-> "inc", var |-> n]
Dec(n)  == [t |-> "dec", var |-> n]
Cyc(g)  == [t |-> "cycle", key |-> [named |-> TRUE, g |-> g], vals |-> <<S("x"), S("y"), S("z")>>]
CycU    == [t |-> "cycle", key |-> [named |-> FALSE, vals |-> <<S("m"), S("n")>>], vals |-> <<S("m"), S("n")>>]
Range(a, b) == [src |-> "range", lo |-> N(a), hi |-> N(b)]
Loop(v, a, b, body) == [t |-> "for", var |-> v, src |-> Range(a, b), lim |-> NoAttr, off |-> NoAttr, rev |-> FALSE,
                        body |-> body, else |-> <<>>]
IfEq(x, n, body) == [t |-> "if", cond |-> [c |-> "bin", op |-> "==", l |-> x, r |-> N(n)], then |-> body, else |-> <<>>]
IfT(x, body) == [t |-> "if", cond |-> [c |-> "truthy", x |-> x], then |-> body, else |-> <<>>]
Changed(body) == [t |-> "ifchanged", body |-> body]
Cap(v, body) == [t |-> "capture", var |-> v, body |-> body]
Incl(x) == [t |-> "include", name |-> x, args |-> <<>>]
Rend(x) == [t |-> "render", name |-> x, mode |-> "plain", args |-> <<[k |-> "v", x |-> V("v")]>>]
Tr(body) == [t |-> "tablerow", var |-> "r", src |-> Range(1, 2), lim |-> NoAttr, off |-> NoAttr, cols |-> NoAttr, body |-> body]
Read(n) == [t |-> "if", cond |-> [c |-> "truthy", x |-> V(n)], then |-> <<Out(V(n))>>, else |-> <<Txt("-")>>]

\* stateful constructs; fails (unknown variable v) on data without v, after
\* having advanced cycle / counter / ifchanged / assigned state
TStateful == <<Cyc("g"), CycU, Inc("c"), Dec("d"), Changed(<<Txt("k")>>), Read("a"), Assign_("a", S("s")),
               Loop("i", 1, 3, <<Cyc("g"), Changed(<<Out(V("v"))>>), IfEq(V("i"), 2, <<[t |-> "continue"]>>), Inc("c")>>),
               Out(V("v")), Cyc("g"), Read("a")>>
\* an error inside a loop after a break / continue was requested, inside capture
TBreakErr == <<Loop("i", 1, 3, <<Out(V("i")), Cap("cc", <<Txt("["), IfEq(V("i"), 2, <<[t |-> "break"]>>), Out(V("w")), Txt("]")>>),
                                 Out(V("cc"))>>),
               Read("cc"), Cyc("h")>>
\* a break inside tablerow stays pending (no interrupt handling there): it must not leak into the next render
TTablerow == <<Tr(<<Out(V("r")), [t |-> "break"], Txt("!")>>), Txt("after"), Out(V("v"))>>
\* partials: dynamic name, broken and missing partials chosen by the data, render and include
TPartials == <<Incl(V("pv")), Txt("|"), Rend(S("p")), Txt("|"), IfT(V("bad"), <<Incl(S("broken"))>>), Cyc("g"), Inc("c")>>
TNested   == <<Loop("i", 1, 2, <<Incl(S("p")), Rend(V("pv")), Cyc("g")>>), Read("a"), Read("zz")>>
TTop      == <<Txt("a"), Inc("c"), [t |-> "break"], Txt("never")>>

\* a partial stored as "q.liquid": render finds it through the fallback, include of the bare name never does -
\* whatever was rendered before on the same parser
RendQ == [t |-> "render", name |-> S("q"), mode |-> "plain", args |-> <<>>]
TLiquid == <<RendQ, Txt("|"), IfT(V("bad"), <<Incl(S("q"))>>), Txt(".")>>
TLiquid2 == <<IfT(V("w"), <<Incl(S("q.liquid"))>>), IfT(V("bad"), <<Incl(S("q"))>>), RendQ>>
\* two cycle groups whose order of first use depends on the data: a group is found by its name, in every render anew
TCycleOrder == <<IfT(V("bad"), <<Cyc("g"), Cyc("g")>>), Loop("i", 1, 2, <<Cyc("h"), Cyc("g"), CycU>>), Cyc("h")>>
Triples ==
  [ t4 |-> <<TLiquid, TLiquid2, TCycleOrder>>,
    t1 |-> <<TStateful, TBreakErr, TTablerow>>,
    t2 |-> <<TPartials, TNested, TStateful>>,
    t3 |-> <<TTop, TPartials, TBreakErr>> ]

PartSet ==
  [n \in {"p", "p2", "broken", "q.liquid"} |->
     CASE n = "p"  -> [ok |-> TRUE, body |-> <<Txt("P"), Out(V("v")), Cyc("g"), Inc("c"), Assign_("zz", S("Z")), Changed(<<Txt("c")>>)>>]
       [] n = "p2" -> [ok |-> TRUE, body |-> <<Txt("Q"), [t |-> "break"], Txt("x")>>]
       [] n = "q.liquid" -> [ok |-> TRUE, body |-> <<Txt("Q"), Cyc("g")>>]
       [] n = "broken" -> [ok |-> FALSE]]

Datas == << [n \in {"v", "pv", "w"} |-> CASE n = "v" -> StrV("1") [] n = "pv" -> StrV("p") [] n = "w" -> StrV("W")],
            [n \in {"v", "pv", "bad"} |-> CASE n = "v" -> StrV("2") [] n = "pv" -> StrV("p2") [] n = "bad" -> BoolV(TRUE)],
            [n \in {"pv"} |-> StrV("nosuch")] >>

VARIABLES triple, hist, results, phase
allvars == <<vars, triple, hist, results, phase>>
Templates == Triples[triple]

Init == /\ triple \in TripleIds
        /\ hist = <<>> /\ results = <<>> /\ phase = "idle"
        /\ parts = PartSet
        /\ prog = <<>> /\ data = EmptyMap
        /\ SetInit([InitStateP(<<>>, EmptyMap, 0, Policy) EXCEPT !.status = "ok", !.ctl = <<>>])

\* a render call starts: every per-render variable is rebuilt, only the store survives
BeginRender(i, j) ==
  /\ phase = "idle" /\ Len(hist) < MaxHist
  /\ prog' = Templates[i] /\ data' = Datas[j]
  /\ Set([InitStateP(Templates[i], Datas[j], 0, Policy) EXCEPT !.store = store])
  /\ hist' = Append(hist, <<i, j>>) /\ phase' = "rendering"
  /\ UNCHANGED <<parts, triple, results>>

RenderStep == /\ phase = "rendering" /\ status = "running" /\ Next
              /\ UNCHANGED <<triple, hist, results, phase>>

EndRender == /\ phase = "rendering" /\ status # "running"
             /\ results' = Append(results, Result(St)) /\ phase' = "idle"
             /\ UNCHANGED <<vars, triple, hist>>

HNext == (\E i \in 1..3, j \in 1..3 : BeginRender(i, j)) \/ RenderStep \/ EndRender
Spec == Init /\ [][HNext]_allvars

\* the function the property talks about: result from template and data alone (fresh parser)
F(i, j) == Result(RunFrom(InitStateP(Templates[i], Datas[j], 0, Policy)))
Repeatable == \A k \in 1..Len(results) : results[k] = F(hist[k][1], hist[k][2])
OnlyStoreSurvives ==
  [][(\E i \in 1..3, j \in 1..3 : BeginRender(i, j)) =>
        /\ layers' = BaseLayers(data') /\ regs' = <<FreshRegs>> /\ bufs' = <<"">>
        /\ sink'.calls = 0 /\ store' = store]_allvars
Inv == TypeOK /\ Repeatable /\ StoreRefinesDecl /\ (phase = "rendering" => DataUntouched /\ CleanFinish)

Record == [p |-> "C09", kind |-> "history", templates |-> Templates, parts |-> parts, datas |-> Datas,
           policy |-> Policy, calls |-> hist, expect |-> results, nt |-> (Len(hist) > 1)]
Emit == (EmitAll /\ phase = "idle" /\ Len(hist) = MaxHist) => PrintT(<<"REPLAY", ToJson(Record)>>)
View == <<vars, triple, hist, phase>>
=============================================================================
