SPECIFICATION Spec
CONSTANTS
  YearsFull = {1970, 1999, 2000, 2004, 2015, 2016, 2020, 2021, 2026, 2037, 2040}
  EmitAll = TRUE
  Wide = FALSE
INVARIANTS Laws Emit
CHECK_DEADLOCK FALSE
