---------------------------- MODULE LiquidValues ----------------------------
(***************************************************************************)
(* The Liquid value universe as the render machine sees it                 *)
(* (crates/core/src/model: values.rs, view.rs, scalar/mod.rs, state.rs,    *)
(* find.rs, array/mod.rs).                                                 *)
(*                                                                         *)
(* Values are tagged records with kind-specific field names so that TLC    *)
(* can compare any two of them.  Integers are TLC integers here (the       *)
(* 64-bit boundary properties use LiquidBig instead); floats are small     *)
(* dyadic rationals num/den (den a power of two); strings are TLC strings  *)
(* over the printable ASCII listed in Ascii.                               *)
(***************************************************************************)
EXTENDS Integers, Sequences, FiniteSets, TLC

IntV(n)        == [k |-> "int", n |-> n]
FloatV(nu, de) == [k |-> "float", num |-> nu, den |-> de]
StrV(s)        == [k |-> "str", s |-> s]
BoolV(b)       == [k |-> "bool", b |-> b]
NilV           == [k |-> "nil"]
ArrV(a)        == [k |-> "arr", a |-> a]
ObjV(o)        == [k |-> "obj", o |-> o]       \* o: function from string keys to values
StateV(q)      == [k |-> "state", q |-> q]     \* the literals  empty / blank
Missing        == [k |-> "missing"]            \* "no such value" (Option::None)

IsScalar(v) == v.k \in {"int", "float", "str", "bool"}
EmptyObj == [x \in {} |-> NilV]

(* ------------------------------ text ---------------------------------- *)
Ascii == " !#$%&'()*+,-./0123456789:;<=>?@ABCDEFGHIJKLMNOPQRSTUVWXYZ[]^_`abcdefghijklmnopqrstuvwxyz{|}~"
CharAt(s, i) == SubSeq(s, i, i)
CharRank == [c \in {CharAt(Ascii, i) : i \in 1..Len(Ascii)} |->
               CHOOSE i \in 1..Len(Ascii) : CharAt(Ascii, i) = c]

RECURSIVE StrCmpFrom(_, _, _)
StrCmpFrom(x, y, i) ==          \* byte-wise lexicographic order, as str::cmp
  IF i > Len(x) /\ i > Len(y) THEN "eq"
  ELSE IF i > Len(x) THEN "lt"
  ELSE IF i > Len(y) THEN "gt"
  ELSE IF CharAt(x, i) = CharAt(y, i) THEN StrCmpFrom(x, y, i + 1)
  ELSE IF CharRank[CharAt(x, i)] < CharRank[CharAt(y, i)] THEN "lt" ELSE "gt"
StrCmp(x, y) == StrCmpFrom(x, y, 1)

IsSpace(c) == c = " "
RECURSIVE AllSpaces(_, _)
AllSpaces(s, i) == i > Len(s) \/ (IsSpace(CharAt(s, i)) /\ AllSpaces(s, i + 1))

RECURSIVE Contains(_, _, _)
Contains(hay, needle, i) ==      \* str::contains
  IF i + Len(needle) - 1 > Len(hay) THEN FALSE
  ELSE SubSeq(hay, i, i + Len(needle) - 1) = needle \/ Contains(hay, needle, i + 1)
StrContains(hay, needle) == needle = "" \/ Contains(hay, needle, 1)

Digits == "0123456789"
IsDigit(c) == \E i \in 1..10 : CharAt(Digits, i) = c
DigitVal(c) == (CHOOSE i \in 1..10 : CharAt(Digits, i) = c) - 1
RECURSIVE ParseNat(_, _, _)
ParseNat(s, i, acc) == IF i > Len(s) THEN acc ELSE ParseNat(s, i + 1, acc * 10 + DigitVal(CharAt(s, i)))
\* str::parse::<i64>() for short strings: optional sign, then digits only
SpellsInt(s) ==
  LET body == IF Len(s) > 0 /\ CharAt(s, 1) \in {"-", "+"} THEN SubSeq(s, 2, Len(s)) ELSE s
  IN  Len(body) > 0 /\ Len(body) <= 8 /\ \A i \in 1..Len(body) : IsDigit(CharAt(body, i))
ParseInt(s) ==
  LET neg  == CharAt(s, 1) = "-"
      body == IF CharAt(s, 1) \in {"-", "+"} THEN SubSeq(s, 2, Len(s)) ELSE s
  IN  IF neg THEN 0 - ParseNat(body, 1, 0) ELSE ParseNat(body, 1, 0)

\* decimal text of num/den (den in {1,2,4,8}) as Rust prints an f64
RECURSIVE FracDigits(_, _)
FracDigits(r, den) == IF r = 0 THEN "" ELSE ToString((r * 10) \div den) \o FracDigits((r * 10) % den, den)
FloatStr(nu, de) ==
  LET a == IF nu < 0 THEN 0 - nu ELSE nu
      whole == a \div de
      r == a % de
  IN (IF nu < 0 THEN "-" ELSE "") \o ToString(whole) \o
     (IF r = 0 THEN "" ELSE "." \o FracDigits(r, de))

\* keys of an object in byte order (objects are functions here; the code
\* iterates a HashMap, so anything that depends on the order of a multi-key
\* object is unspecified and the generators avoid it)
RECURSIVE SortedKeys(_)
SortedKeys(S) ==
  IF S = {} THEN <<>>
  ELSE LET m == CHOOSE x \in S : \A y \in S : StrCmp(x, y) \in {"lt", "eq"} IN
       <<m>> \o SortedKeys(S \ {m})

(* ----------------------- rendering / to_kstr -------------------------- *)
RECURSIVE ToStr(_)
ToStr(v) ==
  CASE v.k = "int"   -> ToString(v.n)
    [] v.k = "float" -> FloatStr(v.num, v.den)
    [] v.k = "str"   -> v.s
    [] v.k = "bool"  -> IF v.b THEN "true" ELSE "false"
    [] v.k = "arr"   -> LET RECURSIVE Cat(_)
                            Cat(i) == IF i > Len(v.a) THEN "" ELSE ToStr(v.a[i]) \o Cat(i + 1)
                        IN Cat(1)
    [] v.k = "obj"   -> LET ks == SortedKeys(DOMAIN v.o)
                            RECURSIVE CatO(_)
                            CatO(i) == IF i > Len(ks) THEN "" ELSE ks[i] \o ToStr(v.o[ks[i]]) \o CatO(i + 1)
                        IN CatO(1)
    [] OTHER         -> ""           \* nil, state

(* ----------------------------- states --------------------------------- *)
Truthy(v) ==
  CASE v.k = "nil"   -> FALSE
    [] v.k = "bool"  -> v.b
    [] v.k = "state" -> FALSE
    [] OTHER         -> TRUE

IsEmptyV(v) ==
  CASE v.k = "nil" -> TRUE
    [] v.k = "str" -> v.s = ""
    [] v.k = "arr" -> Len(v.a) = 0
    [] v.k = "obj" -> DOMAIN v.o = {}
    [] v.k = "state" -> TRUE
    [] OTHER -> FALSE

IsBlankV(v) ==
  CASE v.k = "nil" -> TRUE
    [] v.k = "str" -> AllSpaces(v.s, 1)
    [] v.k = "bool" -> ~v.b
    [] v.k = "arr" -> Len(v.a) = 0
    [] v.k = "obj" -> DOMAIN v.o = {}
    [] v.k = "state" -> TRUE
    [] OTHER -> FALSE

QueryState(v, q) == IF q = "empty" THEN IsEmptyV(v) ELSE IsBlankV(v)

(* ----------------------- equality and order --------------------------- *)
\* scalar_eq
ScalarEq(x, y) ==
  CASE x.k = "int"   /\ y.k = "int"   -> x.n = y.n
    [] x.k = "int"   /\ y.k = "float" -> x.n * y.den = y.num
    [] x.k = "float" /\ y.k = "int"   -> x.num = y.n * x.den
    [] x.k = "float" /\ y.k = "float" -> x.num * y.den = y.num * x.den
    [] x.k = "bool"  /\ y.k = "bool"  -> x.b = y.b
    [] x.k = "str"   /\ y.k = "str"   -> x.s = y.s
    [] y.k = "bool"                   -> y.b     \* Ruby truthiness of the other side
    [] x.k = "bool"                   -> x.b
    [] OTHER -> FALSE

RECURSIVE ValueEq(_, _)
ValueEq(x, y) ==
  IF x.k = "arr" /\ y.k = "arr" THEN
       Len(x.a) = Len(y.a) /\ \A i \in 1..Len(x.a) : ValueEq(x.a[i], y.a[i])
  ELSE IF x.k = "obj" /\ y.k = "obj" THEN
       /\ DOMAIN x.o = DOMAIN y.o
       /\ \A key \in DOMAIN x.o : ValueEq(x.o[key], y.o[key])
  ELSE IF x.k = "nil" /\ y.k = "nil" THEN TRUE
  ELSE IF x.k = "state" THEN QueryState(y, x.q)
  ELSE IF y.k = "state" THEN QueryState(x, y.q)
  ELSE IF IsScalar(x) /\ IsScalar(y) THEN ScalarEq(x, y)
  ELSE IF IsScalar(x) THEN
       (IF y.k = "nil" THEN x.k = "bool" /\ ~x.b ELSE x.k = "bool" /\ x.b)
  ELSE IF IsScalar(y) THEN
       (IF x.k = "nil" THEN y.k = "bool" /\ ~y.b ELSE y.k = "bool" /\ y.b)
  ELSE FALSE

IntCmp(a, b) == IF a < b THEN "lt" ELSE IF a = b THEN "eq" ELSE "gt"

\* scalar_cmp: "lt" "eq" "gt" or "none"
ScalarCmp(x, y) ==
  CASE x.k = "int"   /\ y.k = "int"   -> IntCmp(x.n, y.n)
    [] x.k = "int"   /\ y.k = "float" -> IntCmp(x.n * y.den, y.num)
    [] x.k = "float" /\ y.k = "int"   -> IntCmp(x.num, y.n * x.den)
    [] x.k = "float" /\ y.k = "float" -> IntCmp(x.num * y.den, y.num * x.den)
    [] x.k = "bool"  /\ y.k = "bool"  -> IF x.b = y.b THEN "eq" ELSE IF y.b THEN "lt" ELSE "gt"
    [] x.k = "str"   /\ y.k = "str"   -> StrCmp(x.s, y.s)
    [] OTHER -> "none"

RECURSIVE ValueCmp(_, _)
ValueCmp(x, y) ==
  IF IsScalar(x) /\ IsScalar(y) THEN ScalarCmp(x, y)
  ELSE IF x.k = "arr" /\ y.k = "arr" THEN
    LET RECURSIVE Lex(_)
        Lex(i) == IF i > Len(x.a) /\ i > Len(y.a) THEN "eq"
                  ELSE IF i > Len(x.a) THEN "lt"
                  ELSE IF i > Len(y.a) THEN "gt"
                  ELSE LET c == ValueCmp(x.a[i], y.a[i]) IN
                       IF c = "eq" THEN Lex(i + 1) ELSE c
    IN Lex(1)
  ELSE IF x.k = "obj" /\ y.k = "obj" THEN
    \* lexicographic over (key, value) pairs; key order (see SortedKeys)
    LET kx == SortedKeys(DOMAIN x.o)  ky == SortedKeys(DOMAIN y.o)
        RECURSIVE LexO(_)
        LexO(i) == IF i > Len(kx) /\ i > Len(ky) THEN "eq"
                   ELSE IF i > Len(kx) THEN "lt"
                   ELSE IF i > Len(ky) THEN "gt"
                   ELSE LET kc == StrCmp(kx[i], ky[i]) IN
                        IF kc # "eq" THEN kc
                        ELSE LET c == ValueCmp(x.o[kx[i]], y.o[ky[i]]) IN
                             IF c = "eq" THEN LexO(i + 1) ELSE c
    IN LexO(1)
  ELSE "none"

\* the six comparison operators of `if`, via PartialOrd defaults
CmpOp(op, x, y) ==
  LET c == ValueCmp(x, y) IN
  CASE op = "==" -> ValueEq(x, y)
    [] op = "!=" -> ~ValueEq(x, y)
    [] op = "<"  -> c = "lt"
    [] op = ">"  -> c = "gt"
    [] op = "<=" -> c \in {"lt", "eq"}
    [] op = ">=" -> c \in {"gt", "eq"}

\* `contains`: [ok, v] ; error for nil / state on the left
ContainsOk(x) == IsScalar(x) \/ x.k \in {"arr", "obj"}
ContainsV(x, y) ==
  CASE IsScalar(x)   -> StrContains(ToStr(x), ToStr(y))
    [] x.k = "obj"   -> IsScalar(y) /\ ToStr(y) \in DOMAIN x.o
    [] x.k = "arr"   -> \E i \in 1..Len(x.a) : ValueEq(x.a[i], y)
    [] OTHER         -> FALSE

(* ------------------------- path lookup (find.rs) ---------------------- *)
\* index step: an int, or a string; to_integer() of a string that spells one
StepInt(j) == IF j.k = "int" THEN j.n ELSE ParseInt(j.s)
StepIsInt(j) == j.k = "int" \/ (j.k = "str" /\ SpellsInt(j.s))

ConvertIndex(i, n) == IF 0 <= i THEN i ELSE n + i
ArrGet(a, i) == LET c == ConvertIndex(i, Len(a)) IN
                IF 0 <= c /\ c < Len(a) THEN a[c + 1] ELSE Missing

\* augmented_get(value, index) ; index is a scalar value (any scalar kind)
AugGetV(v, j) ==
  CASE v.k = "arr" ->
         IF StepIsInt(j) THEN ArrGet(v.a, StepInt(j))
         ELSE LET key == ToStr(j) IN
              (CASE key = "first" -> ArrGet(v.a, 0)
                 [] key = "last"  -> ArrGet(v.a, 0 - 1)
                 [] key = "size"  -> IntV(Len(v.a))
                 [] OTHER -> Missing)
    [] v.k = "obj" ->
         LET key == ToStr(j) IN
         IF key \in DOMAIN v.o THEN v.o[key]
         ELSE IF key = "size" THEN IntV(Cardinality(DOMAIN v.o)) ELSE Missing
    [] IsScalar(v) ->
         IF ToStr(j) = "size" THEN IntV(Len(ToStr(v))) ELSE Missing   \* characters (strings may be given as code-point sequences)
    [] OTHER -> Missing

\* try_find(value, steps)
RECURSIVE TryFindV(_, _, _)
TryFindV(v, steps, i) ==
  IF i > Len(steps) THEN v
  ELSE LET c == AugGetV(v, steps[i]) IN
       IF c = Missing THEN Missing ELSE TryFindV(c, steps, i + 1)
=============================================================================
