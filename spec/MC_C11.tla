------------------------------ MODULE MC_C11 ------------------------------
(* Bounded instance of LiquidCompare for property C11: all ordered pairs of *)
(* a ~70-value pool; the coherence laws are invariants; every pair is       *)
(* replayed through the Rust API and through templates.                     *)
EXTENDS LiquidCompare, Json
CONSTANTS EmitAll, PoolSel

I(t) == [k |-> "int", n |-> t]
Fl(nu, de) == [k |-> "float", num |-> nu, den |-> de]
Sp(s) == [k |-> "float", special |-> s]
S(cs) == [k |-> "str", s |-> cs]
Bo(b) == [k |-> "bool", b |-> b]
Nil == [k |-> "nil"]
St(q) == [k |-> "state", q |-> q]
A(a) == [k |-> "arr", a |-> a]
O(o) == [k |-> "obj", o |-> o]
\* 2016-02-16 is day 16847; 10:00:00 UTC that day is second 1455616800
Dt(inst, off) == [k |-> "datetime", inst |-> inst, off |-> off]
Da(days) == [k |-> "date", days |-> days]
SixKeys(v) == O([key \in {"a", "b", "c", "d", "e", "f"} |-> IF key = "d" THEN v ELSE I("1")])

Pool ==
  { Nil, Bo(TRUE), Bo(FALSE),
    I("0"), I("1"), I("-1"), I("2"), I("9007199254740992"), I("9007199254740993"), I("9223372036854775807"),
    I("9223372036854775806"), I("-9223372036854775808"),
    Fl("0", "1"), Fl("1", "2"), Fl("1", "1"), Fl("2", "1"), Fl("-1", "1"), Fl("9007199254740992", "1"),
    Fl("9223372036854775808", "1"), Fl("-9223372036854775808", "1"), Sp("inf"), Sp("-inf"), Sp("nan"),
    S(<<>>), S(<<32>>), S(<<9, 10>>), S(<<49>>), S(<<49, 48>>), S(<<50>>), S(<<116, 114, 117, 101>>), S(<<97>>), S(<<65>>),
    S(<<97, 98>>), S(<<233>>), S(<<122>>), S(<<160>>),
    Dt(1455616800, 0), Dt(1455616800, 3600), Dt(1455616800, 0 - 43200), Dt(1455616801, 0), Dt(1455580800, 50400), Dt(1455667199, 0),
    Da(16847), Da(16848), Da(16846),
    St("empty"), St("blank"),
    A(<<>>), A(<<I("1")>>), A(<<I("1"), I("2")>>), A(<<Fl("1", "1")>>), A(<<I("2")>>), A(<<Nil>>), A(<<A(<<I("1")>>)>>),
    A(<<S(<<97>>)>>), A(<<I("1"), S(<<97>>)>>),
    O([key \in {} |-> Nil]), O([key \in {"a"} |-> I("1")]), O([key \in {"a"} |-> Fl("1", "1")]), O([key \in {"b"} |-> I("1")]),
    O([key \in {"a", "b"} |-> I("1")]), O([key \in {"a", "b"} |-> IF key = "a" THEN I("1") ELSE I("2")]),
    \* same size, different key sets, the extra key holding nil: not equal, in either order
    O([key \in {"a", "b"} |-> IF key = "a" THEN Nil ELSE I("1")]), O([key \in {"b", "c"} |-> IF key = "b" THEN I("1") ELSE I("2")]),
    O([key \in {"b", "c"} |-> IF key = "b" THEN I("1") ELSE Nil]),
    SixKeys(I("1")), SixKeys(I("2")), SixKeys(A(<<I("1")>>)),
    O([key \in {"a"} |-> O([key2 \in {"x", "y", "z"} |-> I("1")])]) }

\* 2020-01-01 00:30 +02:00 is half an hour before 2019-12-31 23:00 +00:00 although its local date is a day later
MoreDates == {Dt(1577831400, 7200), Dt(1577833200, 0), Dt(1577831400, 0 - 3600)}
ThePool == IF PoolSel = "dates" THEN {v \in Pool : v.k \in {"datetime", "date"}} \cup MoreDates \cup {Nil, S(<<50>>)}
           ELSE Pool \cup MoreDates

VARIABLE pr
Init == pr \in {[sd |-> "seed", a |-> a] : a \in ThePool}
Next == pr.sd = "seed" /\ \E b \in ThePool : pr' = [sd |-> "pair", a |-> pr.a, b |-> b]
Spec == Init /\ [][Next]_pr
IsPair == pr.sd = "pair"
X == pr.a  Y == pr.b
HasNaN(v) == v = Sp("nan")     \* NaN only occurs at top level in the pool

Laws == IsPair =>
  /\ (X = Y /\ ~HasNaN(X)) => ValueEqC(X, Y)                                   \* EqReflexive (NaN excepted)
  /\ ValueEqC(X, Y) = ValueEqC(Y, X)                                            \* EqSymmetric
  /\ VLt(X, Y) = VGt(Y, X)                                                      \* LtGtDual
  /\ Ordered(X, Y) => (VLe(X, Y) = (VLt(X, Y) \/ ValueEqC(X, Y)))               \* LeGeConsistent
  /\ Ordered(X, Y) => (VGe(X, Y) = (VGt(X, Y) \/ ValueEqC(X, Y)))
  /\ ValueEqC(X, Y) => ~VLt(X, Y) /\ ~VGt(X, Y)                                 \* EqualNeverStrictlyOrdered
  /\ (X.k = "int" /\ Y.k = "float" /\ ~IsSpecial(Y) /\ InI64(FromDec(X.n))
        /\ Le(Abs(FromDec(X.n)), TwoTo53) /\ REq(RInt(FromDec(X.n)), NumRat(Y))) => ValueEqC(X, Y)    \* IntFloatEqual
  /\ (X.k = "datetime" /\ Y.k = "datetime") => (ValueEqC(X, Y) = (X.inst = Y.inst))                   \* ChronologicalAcrossOffsets
                                               /\ (VLt(X, Y) = (X.inst < Y.inst))

Record == [p |-> "C11", kind |-> "cmp", a |-> X, b |-> Y,
           expect |-> [eq |-> ValueEqC(X, Y), cmp |-> ValueCmpC(X, Y)], nt |-> (X # Y)]
Emit == (EmitAll /\ IsPair) => PrintT(<<"REPLAY", ToJson(Record)>>)
=============================================================================
