SPECIFICATION MCSpec
CONSTANTS
  FKeys = {"a"}
  MaxF = 5
INVARIANTS FInv ChainProgress OneIndexFrame
CHECK_DEADLOCK FALSE
