------------------------------ MODULE MC_C10 ------------------------------
(* Bounded instance of LiquidInterp for property C10 (failing sink): a     *)
(* corpus of programs built from every construct that writes, each run     *)
(* with the sink failing at logical write k for every k (0 = never).       *)
EXTENDS LiquidInterp, Json

CONSTANTS MaxSeq, EmitAll

Txt(c)  == [t |-> "text", c |-> c]
Out(x)  == [t |-> "out", x |-> x]
S(s)    == Lit(StrV(s))
N(n)    == Lit(IntV(n))
Range(a, b) == [src |-> "range", lo |-> N(a), hi |-> N(b)]
Loop(v, a, b, body) == [t |-> "for", var |-> v, src |-> Range(a, b), lim |-> NoAttr, off |-> NoAttr, rev |-> FALSE,
                        body |-> body, else |-> <<Txt("none")>>]
IfT(x, body) == [t |-> "if", cond |-> [c |-> "truthy", x |-> x], then |-> body, else |-> <<Txt("no")>>]

Writers ==
  { Txt("ab"), Out(V("v")), Out(N(42)), [t |-> "raw", c |-> "{{x}}"],
    [t |-> "cycle", key |-> [named |-> TRUE, g |-> "g"], vals |-> <<S("x"), S("y")>>],
    [t |-> "inc", var |-> "c"], [t |-> "dec", var |-> "d"],
    [t |-> "ifchanged", body |-> <<Txt("k"), Out(V("v"))>>],
    [t |-> "tablerow", var |-> "r", src |-> Range(1, 3), lim |-> NoAttr, off |-> NoAttr, cols |-> AttrOf(N(2)),
     body |-> <<Out(V("r"))>>],
    [t |-> "include", name |-> S("p"), args |-> <<>>],
    [t |-> "render", name |-> S("p"), mode |-> "plain", args |-> <<[k |-> "v", x |-> S("w")]>>],
    [t |-> "render", name |-> S("p"), mode |-> "for", src |-> Range(1, 2), as |-> "v", args |-> <<>>],
    [t |-> "capture", var |-> "cc", body |-> <<Txt("in"), Out(V("v"))>>], Out(V("nosuch")) }

\* a pending break / continue while an enclosing construct still has something to write
Intr(kk) == [t |-> kk]
Wrappers(b) ==
  { <<[t |-> "ifchanged", body |-> b]>>,
    <<[t |-> "tablerow", var |-> "r", src |-> Range(1, 2), lim |-> NoAttr, off |-> NoAttr, cols |-> NoAttr, body |-> b]>>,
    <<[t |-> "capture", var |-> "cc", body |-> b], Out(V("cc"))>>,
    <<[t |-> "include", name |-> S("pb"), args |-> <<>>], Txt("+")>>,
    <<[t |-> "render", name |-> S("pb"), mode |-> "plain", args |-> <<[k |-> "i", x |-> V("i")]>>], Txt("+")>>,
    <<IfT(V("i"), b), Txt("+")>>, b }
IntrProgs ==
  UNION {{ <<Txt("a"), Loop("i", 1, 3, w \o <<Txt(",")>>), Txt("z")>> :
             w \in Wrappers(<<Out(V("i")), Intr(kk), Txt("x")>>) } : kk \in {"break", "continue"}}

PartSet == [n \in {"p", "pb"} |->
              IF n = "p" THEN [ok |-> TRUE, body |-> <<Txt("<"), Out(V("v")), Txt(">")>>]
              ELSE [ok |-> TRUE, body |-> <<Out(V("i")), [t |-> "break"], Txt("x")>>]]
RECURSIVE Seqs(_)
Seqs(n) == IF n = 0 THEN {<<>>} ELSE {<<s>> \o r : s \in Writers, r \in Seqs(n - 1)}
Progs ==
  UNION {Seqs(n) : n \in 0..MaxSeq} \cup
  {<<Loop("i", 1, 2, <<w, Txt(",")>>), Txt(".")>> : w \in Writers} \cup
  {<<IfT(V("v"), <<w>>), IfT(V("nosuch"), <<w>>)>> : w \in Writers} \cup
  {<<[t |-> "capture", var |-> "cc", body |-> <<w, Txt("+")>>], Out(V("cc")), Txt("$")>> : w \in Writers} \cup
  {<<Loop("i", 1, 2, <<Loop("j", 1, 2, <<w>>), [t |-> "ifchanged", body |-> <<w>>]>>), Loop("i", 2, 1, <<w>>)>> : w \in Writers} \cup
  IntrProgs

TheData == [n \in {"v"} |-> StrV("V")]

VARIABLE k
allvars == <<vars, k>>
FaultFree(p) == RunFrom(InitState(p, TheData, 0))
Init == /\ prog \in Progs /\ parts = PartSet /\ data = TheData
        /\ k \in 0..FaultFree(prog).sink.calls
        /\ SetInit(InitState(prog, data, k))
Spec == Init /\ [][Next /\ UNCHANGED k]_allvars

\* bytes accepted so far are a prefix of what the fault-free run of the same program accepts
StrPrefix(a, b) == Len(a) <= Len(b) /\ SubSeq(b, 1, Len(a)) = a
AcceptedIsPrefix == StrPrefix(bufs[1], FaultFree(prog).bufs[1])
ErrIffFailed == Done => ((k # 0) => (status = "err" /\ sink.failed)) /\ (sink.failed => status = "err")
StreamEqualsBuffered == (Done /\ k = 0) => Result(St) = Result(FaultFree(prog))
Inv == TypeOK /\ FailedMeansErr /\ AcceptedIsPrefix /\ ErrIffFailed /\ StreamEqualsBuffered /\ CleanFinish

Record == [p |-> "C10", kind |-> "render", prog |-> prog, parts |-> parts, data |-> data,
           expect |-> Result(St), nt |-> TRUE]
Emit == (EmitAll /\ Done /\ k = 0) => PrintT(<<"REPLAY", ToJson(Record)>>)
=============================================================================
