SPECIFICATION Spec
CONSTANTS
  MaxPath = 4
  EmitAll = TRUE
INVARIANTS Inv Emit
CHECK_DEADLOCK FALSE
