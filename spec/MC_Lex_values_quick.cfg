SPECIFICATION LSpec
CONSTANTS
  MaxPieces = 2
  MaxPhrase = 3
  Hosts = {"out", "assign"}
  EmitAll = TRUE
INVARIANTS Emit
CHECK_DEADLOCK FALSE
