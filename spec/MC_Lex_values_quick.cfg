SPECIFICATION LSpec
CONSTANTS
  MaxPieces = 2
  MaxPhrase = 3
  MaxTmpl = 0
  MaxDeep = 0
  Hosts = {"out", "assign"}
  EmitAll = TRUE
INVARIANTS Emit
CHECK_DEADLOCK FALSE
