SPECIFICATION MCFair
CONSTANTS
  Threads = {"t1", "t2"}
  Valid = {"p"}
  Broken = {"b"}
  Absent = {"m"}
  MaxCalls = 2
INVARIANTS MutualExclusion LockMatchesInside AtMostOneCompilePerName ResultIndependentOfSchedule CacheRefinesDecl NoPoison
PROPERTIES EventuallyReturns
CHECK_DEADLOCK TRUE
