------------------------------ MODULE MC_C02 ------------------------------
(* Bounded instance for property C02 (rendering is total): every filter x   *)
(* every input of a type-confused pool x every argument tuple up to arity   *)
(* 2, and an edge-argument corpus for tags and blocks.                      *)
EXTENDS LiquidFilterSig, Json, TLC
CONSTANTS ArgPool2Small, EmitAll

I(t) == [k |-> "int", n |-> t]
F(nu, de) == [k |-> "float", num |-> nu, den |-> de]
S(cs) == [k |-> "str", s |-> cs]
Nil == [k |-> "nil"]
B(b) == [k |-> "bool", b |-> b]
A(a) == [k |-> "arr", a |-> a]
O(o) == [k |-> "obj", o |-> o]
Mixed(n) == A([i \in 1..n |-> CASE i % 5 = 0 -> Nil [] i % 5 = 1 -> I("3") [] i % 5 = 2 -> S(<<98, 233>>) [] i % 5 = 3 -> F("5", "2") [] OTHER -> A(<<I("1")>>)])
\* scalars only, of kinds that do not compare with each other (a sort over them has no consistent order)
ScalarMix(n) == A([i \in 1..n |-> CASE i % 3 = 0 -> I(ToString((i * 7) % 11)) [] i % 3 = 1 -> S(<<97 + (i % 5)>>) [] OTHER -> F(ToString(i), "2")])
Pool ==
  { Nil, B(TRUE), B(FALSE), I("0"), I("1"), I("-1"), I("2"), I("10000"), I("-10000"), I("9223372036854775807"), I("-9223372036854775808"),
    F("0", "1"), F("1", "2"), F("-1", "2"), F("5", "2"), F("-7", "2"), F("9223372036854775808", "1"), [k |-> "float", special |-> "inf"],
    [k |-> "float", special |-> "nan"],
    S(<<>>), S(<<32>>), S(<<9, 10>>), S(<<97>>), S(<<97, 32, 98, 32, 99>>), S(<<233>>), S(<<101, 769>>), S(<<128512, 128512>>), S(<<49, 50>>),
    S(<<45, 51, 46, 53>>), S(<<37>>), S(<<37, 233>>), S(<<60, 98, 62, 38, 97, 109, 112, 59>>), S(<<37, 70, 70>>),
    S(<<50, 48, 49, 54, 45, 48, 50, 45, 49, 54, 32, 49, 48, 58, 48, 48, 58, 48, 48>>),       \* 2016-02-16 10:00:00
    S(<<37, 89, 45, 37, 109, 37>>), S(<<112>>),
    A(<<>>), A(<<I("1")>>), A(<<Nil, S(<<97>>), F("5", "2"), A(<<I("1")>>)>>), Mixed(21), Mixed(40), ScalarMix(24), ScalarMix(61),
    A(<<O([q \in {"p"} |-> I("1")]), O([q \in {"p"} |-> Nil]), O([q \in {"q"} |-> S(<<97>>)])>>),
    O([q \in {} |-> Nil]), O([q \in {"p"} |-> I("1")]), O([q \in {"p", "size"} |-> S(<<120>>)]) }
ArgPoolSmall == { Nil, I("0"), I("-1"), I("9223372036854775807"), I("-9223372036854775808"), F("1", "2"), S(<<>>), S(<<233>>), S(<<112>>), A(<<I("1")>>),
                  O([q \in {"p"} |-> I("1")]), S(<<37, 233>>) }
Arg2Pool == IF ArgPool2Small THEN ArgPoolSmall ELSE Pool

\* tags and blocks with edge arguments (source text, rendered with the data below): must return
EdgeSources ==
  { "{% tablerow i in arr cols:0 %}{{ i }}{% endtablerow %}", "{% tablerow i in arr cols:1 %}{{ i }}{% endtablerow %}",
    "{% tablerow i in arr cols:-1 %}{{ i }}{% endtablerow %}", "{% tablerow i in arr cols:9223372036854775807 %}{{ i }}{% endtablerow %}",
    "{% tablerow i in arr cols:big limit:neg offset:neg %}{{ tablerow.col }}{% endtablerow %}",
    "{% cycle a: %}", "{% cycle 'g': %}", "{% cycle a: 1 %}{% cycle a: 1, 2 %}{% cycle a: 1, 2 %}{% cycle a: 1 %}",
    "{% for i in arr limit:neg %}{{ i }}{% endfor %}", "{% for i in arr offset:neg %}{{ i }}{% endfor %}",
    "{% for i in arr limit:big offset:big %}{{ i }}{% endfor %}", "{% for i in arr limit:9223372036854775807 offset:1 %}{{ i }}{% endfor %}",
    "{% for i in (3..3) %}{{ i }}{% endfor %}", "{% for i in (5..1) %}{{ i }}{% else %}e{% endfor %}", "{% for i in (1..10000) %}{% endfor %}",
    "{% for i in (neg..1) %}{{ i }}{% endfor %}", "{% for i in (big..big) %}{{ i }}{% endfor %}", "{% for i in (min..min) %}{{ i }}{% endfor %}",
    "{% for i in (str..3) %}{{ i }}{% endfor %}", "{% for i in str %}{{ i }}{% endfor %}", "{% for i in obj %}{{ i[0] }}{% endfor %}",
    "{% assign c = 'x' %}{% increment c %}{% increment c %}{{ c }}", "{% assign d = 2.5 %}{% decrement d %}{{ d }}",
    "{% increment big %}{% decrement min %}", "{{ arr[big] }}", "{{ arr[min] }}", "{{ arr[-1] }}{{ arr.first }}{{ arr.last }}{{ arr.size }}",
    "{{ str.size }}{{ str.first }}", "{{ obj.size }}{{ obj.first }}", "{{ nil.size }}", "{{ arr[str] }}", "{{ obj[arr] }}",
    "{% capture big %}x{% endcapture %}{{ big }}", "{% ifchanged %}{{ str }}{% endifchanged %}{% ifchanged %}{{ str }}{% endifchanged %}",
    "{% case arr %}{% when arr %}same{% when 1 %}one{% endcase %}", "{% if arr contains nil %}t{% endif %}{% if nil contains 1 %}t{% endif %}",
    "{% if str contains 233 %}t{% endif %}{% if obj contains 'p' %}t{% endif %}", "{% unless min < big %}x{% else %}y{% endunless %}",
    "{% include str %}", "{% include arr %}", "{% render nil %}", "{% render 'p' for arr as x %}", "{% include 'p' a: arr, b: min %}",
    "{{ str | date: '%Y' }}{{ 'now' | date: '%Y' | size }}", "{{ big | date: '%s' }}", "{{ min | date: '%Y-%m-%d' }}" }

Seeds == {[sd |-> "f0"], [sd |-> "edge"]} \cup {[sd |-> "f1", f |-> f] : f \in Filters} \cup {[sd |-> "f2", f |-> f, a |-> a] : f \in Filters, a \in Arg2Pool}
CasesOf(s) ==
  CASE s.sd = "f0" -> {[sd |-> "case", f |-> f, in |-> x, args |-> <<>>] : f \in Filters, x \in Pool}
    [] s.sd = "f1" -> {[sd |-> "case", f |-> s.f, in |-> x, args |-> <<a>>] : x \in Pool, a \in Pool}
    [] s.sd = "f2" -> {[sd |-> "case", f |-> s.f, in |-> x, args |-> <<s.a, b>>] : x \in Pool, b \in Arg2Pool}
    [] s.sd = "edge" -> {[sd |-> "edgecase", src |-> e] : e \in EdgeSources}
VARIABLE c
Init == c \in Seeds
Next == c.sd \notin {"case", "edgecase"} /\ c' \in CasesOf(c)
Spec == Init /\ [][Next]_c

\* every registered filter has a consistent signature
ASSUME \A f \in Filters : f.lo <= f.hi /\ f.hi <= 2
ASSUME \A f, g \in Filters : f.n = g.n => f = g

EdgeData == [arr |-> A(<<I("1"), I("2"), I("3")>>), big |-> I("9223372036854775807"), min |-> I("-9223372036854775808"), neg |-> I("-1"),
             str |-> S(<<233, 97>>), obj |-> O([q \in {"p"} |-> I("1")])]
Record ==
  IF c.sd = "case" THEN
    [p |-> "C02", kind |-> "filter", in |-> c.in, chain |-> <<[n |-> c.f.n, a |-> c.args]>>,
     expect |-> IF Class(c.f, Len(c.args)) = "reject" THEN [err |-> TRUE] ELSE [any |-> TRUE], nt |-> TRUE]
  ELSE [p |-> "C02", kind |-> "source", src |-> c.src, data |-> EdgeData, parts |-> [q \in {"p"} |-> [ok |-> FALSE]],
        expect |-> [ok |-> TRUE, anyout |-> TRUE, anyerr |-> TRUE], nt |-> TRUE]
Emit == (EmitAll /\ c.sd \in {"case", "edgecase"}) => PrintT(<<"REPLAY", ToJson(Record)>>)
=============================================================================
