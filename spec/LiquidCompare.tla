---------------------------- MODULE LiquidCompare ----------------------------
(***************************************************************************)
(* Liquid equality and ordering over the full value universe               *)
(* (crates/core/src/model/value/view.rs value_eq / value_cmp,              *)
(* scalar/mod.rs scalar_eq / scalar_cmp, state.rs): integers to the 64-bit *)
(* limits (LiquidBig), doubles as exact rationals or inf / -inf / nan,     *)
(* strings as code-point sequences, dates, date-times with offsets, the    *)
(* empty / blank markers, arrays and objects.  Objects are functions:      *)
(* nothing here can depend on the order in which an object was built.      *)
(***************************************************************************)
EXTENDS LiquidFiltersMath, FiniteSets

\* [k:"nil"] [k:"bool",b] [k:"int",n:dec] [k:"float",num:dec,den:dec] [k:"float",special:"inf"|"-inf"|"nan"]
\* [k:"str",s:<<code points>>] [k:"date",days] [k:"datetime",inst:seconds since epoch,off:seconds]
\* [k:"state",q:"empty"|"blank"] [k:"arr",a:<<..>>] [k:"obj",o:[key -> value]]
IsNum(v) == v.k \in {"int", "float"}
IsSpecial(v) == v.k = "float" /\ "special" \in DOMAIN v
IsScalarC(v) == v.k \in {"int", "float", "str", "bool", "date", "datetime"}
\* the double an integer or float operand denotes, as an exact rational (finite only)
NumRat(v) == IF v.k = "int" THEN IntToDouble(FromDec(v.n)) ELSE Rat(FromDec(v.num), FromDec(v.den))
\* extended-real order of two numeric operands: "lt" "eq" "gt" "none"
NumCmp(x, y) ==
  IF x.k = "int" /\ y.k = "int" THEN
       LET c == Cmp(FromDec(x.n), FromDec(y.n)) IN IF c < 0 THEN "lt" ELSE IF c = 0 THEN "eq" ELSE "gt"
  ELSE IF (IsSpecial(x) /\ x.special = "nan") \/ (IsSpecial(y) /\ y.special = "nan") THEN "none"
  ELSE IF IsSpecial(x) /\ IsSpecial(y) THEN (IF x.special = y.special THEN "eq" ELSE IF x.special = "-inf" THEN "lt" ELSE "gt")
  ELSE IF IsSpecial(x) THEN (IF x.special = "inf" THEN "gt" ELSE "lt")
  ELSE IF IsSpecial(y) THEN (IF y.special = "inf" THEN "lt" ELSE "gt")
  ELSE LET c == RCmp(NumRat(x), NumRat(y)) IN IF c < 0 THEN "lt" ELSE IF c = 0 THEN "eq" ELSE "gt"

RECURSIVE SeqCmp(_, _, _)
SeqCmp(x, y, i) ==          \* lexicographic on code points (= UTF-8 byte order)
  IF i > Len(x) /\ i > Len(y) THEN "eq" ELSE IF i > Len(x) THEN "lt" ELSE IF i > Len(y) THEN "gt"
  ELSE IF x[i] < y[i] THEN "lt" ELSE IF x[i] > y[i] THEN "gt" ELSE SeqCmp(x, y, i + 1)
IntCmpS(a, b) == IF a < b THEN "lt" ELSE IF a = b THEN "eq" ELSE "gt"
\* local calendar day of a date-time
LocalDay(dt) == (dt.inst + dt.off) \div 86400      \* floor division (TLC \div floors)

ScalarCmpC(x, y) ==
  CASE IsNum(x) /\ IsNum(y) -> NumCmp(x, y)
    [] x.k = "bool" /\ y.k = "bool" -> IF x.b = y.b THEN "eq" ELSE IF y.b THEN "lt" ELSE "gt"
    [] x.k = "str" /\ y.k = "str" -> SeqCmp(x.s, y.s, 1)
    [] x.k = "datetime" /\ y.k = "datetime" -> IntCmpS(x.inst, y.inst)          \* chronological, whatever the offsets
    [] x.k = "date" /\ y.k = "date" -> IntCmpS(x.days, y.days)
    [] x.k = "datetime" /\ y.k = "date" -> IntCmpS(LocalDay(x), y.days)         \* x against x with its date replaced
    [] x.k = "date" /\ y.k = "datetime" -> IntCmpS(x.days, LocalDay(y))
    [] OTHER -> "none"
ScalarEqC(x, y) ==
  CASE IsNum(x) /\ IsNum(y) -> NumCmp(x, y) = "eq"
    [] x.k = "bool" /\ y.k = "bool" -> x.b = y.b
    [] x.k = "str" /\ y.k = "str" -> x.s = y.s
    [] x.k \in {"date", "datetime"} /\ y.k \in {"date", "datetime"} -> ScalarCmpC(x, y) = "eq"
    [] y.k = "bool" -> y.b
    [] x.k = "bool" -> x.b
    [] OTHER -> FALSE

IsWs(c) == c \in {32, 9, 10, 13, 11, 12, 160, 133}
EmptyC(v) == CASE v.k = "nil" -> TRUE [] v.k = "str" -> v.s = <<>> [] v.k = "arr" -> v.a = <<>>
               [] v.k = "obj" -> DOMAIN v.o = {} [] v.k = "state" -> TRUE [] OTHER -> FALSE
BlankC(v) == CASE v.k = "nil" -> TRUE [] v.k = "str" -> \A i \in 1..Len(v.s) : IsWs(v.s[i]) [] v.k = "bool" -> ~v.b
               [] v.k = "arr" -> v.a = <<>> [] v.k = "obj" -> DOMAIN v.o = {} [] v.k = "state" -> TRUE [] OTHER -> FALSE
QueryC(v, q) == IF q = "empty" THEN EmptyC(v) ELSE BlankC(v)

RECURSIVE ValueEqC(_, _)
ValueEqC(x, y) ==
  IF x.k = "arr" /\ y.k = "arr" THEN Len(x.a) = Len(y.a) /\ \A i \in 1..Len(x.a) : ValueEqC(x.a[i], y.a[i])
  ELSE IF x.k = "obj" /\ y.k = "obj" THEN DOMAIN x.o = DOMAIN y.o /\ \A key \in DOMAIN x.o : ValueEqC(x.o[key], y.o[key])
  ELSE IF x.k = "nil" /\ y.k = "nil" THEN TRUE
  ELSE IF x.k = "state" THEN QueryC(y, x.q)
  ELSE IF y.k = "state" THEN QueryC(x, y.q)
  ELSE IF IsScalarC(x) /\ IsScalarC(y) THEN ScalarEqC(x, y)
  ELSE IF IsScalarC(x) THEN (IF y.k = "nil" THEN x.k = "bool" /\ ~x.b ELSE x.k = "bool" /\ x.b)
  ELSE IF IsScalarC(y) THEN (IF x.k = "nil" THEN y.k = "bool" /\ ~y.b ELSE y.k = "bool" /\ y.b)
  ELSE FALSE

\* keys in code-point order (keys are TLC strings over [a-z]); objects compare as key-sorted pair lists
KeyRank(kk) == CHOOSE i \in 1..26 : SubSeq("abcdefghijklmnopqrstuvwxyz", i, i) = SubSeq(kk, 1, 1)
RECURSIVE SortedKeysC(_)
SortedKeysC(S) == IF S = {} THEN <<>>
                  ELSE LET m == CHOOSE x \in S : \A z \in S : KeyRank(x) <= KeyRank(z) IN <<m>> \o SortedKeysC(S \ {m})
RECURSIVE ValueCmpC(_, _)
ValueCmpC(x, y) ==
  IF IsScalarC(x) /\ IsScalarC(y) THEN ScalarCmpC(x, y)
  ELSE IF x.k = "arr" /\ y.k = "arr" THEN
    LET RECURSIVE Lex(_)
        Lex(i) == IF i > Len(x.a) /\ i > Len(y.a) THEN "eq" ELSE IF i > Len(x.a) THEN "lt" ELSE IF i > Len(y.a) THEN "gt"
                  ELSE LET c == ValueCmpC(x.a[i], y.a[i]) IN IF c = "eq" THEN Lex(i + 1) ELSE c
    IN Lex(1)
  ELSE IF x.k = "obj" /\ y.k = "obj" THEN
    LET kx == SortedKeysC(DOMAIN x.o)  ky == SortedKeysC(DOMAIN y.o)
        RECURSIVE LexO(_)
        LexO(i) == IF i > Len(kx) /\ i > Len(ky) THEN "eq" ELSE IF i > Len(kx) THEN "lt" ELSE IF i > Len(ky) THEN "gt"
                   ELSE IF KeyRank(kx[i]) < KeyRank(ky[i]) THEN "lt" ELSE IF KeyRank(kx[i]) > KeyRank(ky[i]) THEN "gt"
                   ELSE LET c == ValueCmpC(x.o[kx[i]], y.o[ky[i]]) IN IF c = "eq" THEN LexO(i + 1) ELSE c
    IN LexO(1)
  ELSE "none"

VLt(x, y) == ValueCmpC(x, y) = "lt"
VGt(x, y) == ValueCmpC(x, y) = "gt"
VLe(x, y) == ValueCmpC(x, y) \in {"lt", "eq"}
VGe(x, y) == ValueCmpC(x, y) \in {"gt", "eq"}
Ordered(x, y) == ValueCmpC(x, y) # "none"
=============================================================================
