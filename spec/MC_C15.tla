------------------------------ MODULE MC_C15 ------------------------------
(* Bounded instance of LiquidFiltersMath for property C15: the operand pool *)
(* of the property as integers, numeric strings and floats, all pairs of    *)
(* k/8; TLC checks the laws of the outcome relation and emits the cases;    *)
(* the real filters' outcomes are validated by Trace_Math.                  *)
EXTENDS LiquidFiltersMath, Json
CONSTANTS Eighths, EmitAll

IntTexts == {"0", "1", "-1", "2", "-2", "3", "-3", "7", "-7", "10", "2147483648", "-2147483648",
             "4611686018427387904", "-4611686018427387904", "9223372036854775806", "9223372036854775807",
             "-9223372036854775808", "-9223372036854775807"}
AsInt(t)   == [k |-> "int", n |-> t]
AsStr(t)   == [k |-> "str", s |-> t, i |-> t]
AsFloat(t) == LET d == IntToDouble(FromDec(t)) IN [k |-> "float", num |-> ToDec(d.p), den |-> "1"]
Eighth(n)  == [k |-> "float", num |-> ToString(n), den |-> "8"]
Others == {[k |-> "nil"], [k |-> "bool"], [k |-> "arr"], [k |-> "str", s |-> "abc"],
           [k |-> "str", s |-> "2.5", num |-> "5", den |-> "2"], [k |-> "str", s |-> "-0.125", num |-> "-1", den |-> "8"],
           [k |-> "str", s |-> "99999999999999999999", num |-> "100000000000000000000", den |-> "1"],
           \* tiny but non-zero divisors: 2^-70 and -3 * 2^-70 (exact doubles); only zero divides by zero
           [k |-> "float", num |-> "1", den |-> "1180591620717411303424"], [k |-> "float", num |-> "-3", den |-> "1180591620717411303424"]}
Operands == {AsInt(t) : t \in IntTexts} \cup {AsStr(t) : t \in IntTexts} \cup {AsFloat(t) : t \in IntTexts}
EighthOps == {Eighth(n) : n \in (0 - Eighths)..Eighths}
\* odd integers between 2^52 and 2^53 (x + 0.5 is not representable there), as integer, float and string
UnExtra == UNION {{AsInt(t), AsStr(t), AsFloat(t)} : t \in {"4503599627370497", "-4503599627370497", "9007199254740991", "-9007199254740991", "4503599627370495"}}
BinOps == {"plus", "minus", "times", "divided_by", "modulo", "at_least", "at_most"}
UnOps == {"abs", "ceil", "floor", "round"}

Seeds == {[sd |-> "bin", op |-> op, a |-> a] : op \in BinOps, a \in Operands \cup Others} \cup
         {[sd |-> "bin8", op |-> op, a |-> a] : op \in BinOps, a \in EighthOps} \cup
         {[sd |-> "un", op |-> op] : op \in UnOps}
CasesOf(s) ==
  CASE s.sd = "bin"  -> {[sd |-> "case", op |-> s.op, a |-> s.a, b |-> b] : b \in Operands \cup Others}
    [] s.sd = "bin8" -> {[sd |-> "case", op |-> s.op, a |-> s.a, b |-> b] : b \in EighthOps \cup {AsInt("3"), AsStr("-2")}}
    [] s.sd = "un"   -> {[sd |-> "case", op |-> s.op, a |-> a] : a \in Operands \cup Others \cup EighthOps \cup UnExtra}
VARIABLE c
Init == c \in Seeds
Next == c.sd # "case" /\ c' \in CasesOf(c)
Spec == Init /\ [][Next]_c
IsCase == c.sd = "case"
IsBin == "b" \in DOMAIN c

\* the implementation-shaped choice (checked arithmetic, truncating division, float fallback) is allowed by the relation
Checked(op, a, b) ==       \* what a straightforward correct implementation returns on the integer path
  LET x == IntOf(a)  y == IntOf(b) IN
  CASE op \in {"plus", "minus", "times", "at_least", "at_most"} ->
         LET e == IntOp(op, x, y) IN
         IF InI64(e) THEN [k |-> "int", n |-> ToDec(e)] ELSE [k |-> "error"]
    [] op = "divided_by" -> IF IsZero(y) \/ ~InI64(DivTrunc(x, y)) THEN [k |-> "error"] ELSE [k |-> "int", n |-> ToDec(DivTrunc(x, y))]
    [] op = "modulo" -> IF IsZero(y) THEN [k |-> "error"] ELSE [k |-> "int", n |-> ToDec(RemTrunc(x, y))]
Laws == (IsCase /\ IsBin) =>
  /\ NeverWraps(c.op, c.a, c.b)
  /\ (HasInt(c.a) /\ HasInt(c.b)) =>
       /\ AllowedBinary(c.op, c.a, c.b, Checked(c.op, c.a, c.b))
       /\ (c.op = "modulo" /\ ~IsZero(IntOf(c.b))) =>
             DivModIdentity(IntOf(c.a), IntOf(c.b), DivTrunc(IntOf(c.a), IntOf(c.b)), RemTrunc(IntOf(c.a), IntOf(c.b)))
  \* ties round away from zero on every k/8
  /\ TRUE
RoundTiesAway == (IsCase /\ ~IsBin /\ c.op = "round" /\ c.a.k = "float" /\ c.a.den = "8") =>
  LET n == FromDec(c.a.num)  r == RRound(Rat(n, FromInt(8))) IN
  /\ Le(Abs(Sub(Mul(FromInt(8), r), n)), FromInt(4))                                \* nearest
  /\ (Abs(RemTrunc(n, FromInt(8))) = FromInt(4)) => Le(Abs(n), Mul(FromInt(8), Abs(r)))   \* a tie moves away from zero

Record == [p |-> "C15", kind |-> "mathcase", op |-> c.op, a |-> c.a, b |-> IF IsBin THEN c.b ELSE [k |-> "none"]]
Emit == (EmitAll /\ IsCase) => PrintT(<<"REPLAY", ToJson(Record)>>)
=============================================================================
