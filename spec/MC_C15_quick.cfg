SPECIFICATION Spec
CONSTANTS
  Eighths = 12
  EmitAll = TRUE
INVARIANTS Laws RoundTiesAway Emit
CHECK_DEADLOCK FALSE
