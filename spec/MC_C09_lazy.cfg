SPECIFICATION Spec
CONSTANTS
  MaxHist = 3
  TripleIds = {"t1", "t2", "t3", "t4"}
  Policy = "lazy"
  EmitAll = TRUE
INVARIANTS Inv Emit
PROPERTIES OnlyStoreSurvives
CHECK_DEADLOCK FALSE
