SPECIFICATION LSpec
CONSTANTS
  MaxPieces = 0
  MaxPhrase = 2
  MaxTmpl = 4
  MaxDeep = 0
  Hosts = {"tmpl", "tmpl_if", "tmpl_for", "tmpl_case", "tmpl_cap"}
  EmitAll = TRUE
INVARIANTS Emit
CHECK_DEADLOCK FALSE
