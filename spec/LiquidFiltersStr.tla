-------------------------- MODULE LiquidFiltersStr --------------------------
(***************************************************************************)
(* The string filters of the standard library as functions on sequences    *)
(* of Unicode scalar values (crates/lib/src/stdlib/filters/string,         *)
(* slice.rs, mod.rs, html.rs newline_to_br, array.rs first/last/join).     *)
(* Counting and cutting is in characters (grapheme clusters for truncate,  *)
(* as the filter documents), never bytes.                                  *)
(* Results: [val |-> value] | [err |-> TRUE] | [any |-> TRUE] (the         *)
(* property is silent: only totality is required).                         *)
(***************************************************************************)
EXTENDS LiquidChars, Integers, TLC

StrV(s)  == [k |-> "str", s |-> s]
IntV(n) == [k |-> "int", n |-> n]
ArrV(a)  == [k |-> "arr", a |-> a]
ValR(v)  == [val |-> v]
ErrR     == [err |-> TRUE]
AnyR     == [any |-> TRUE]

MapChars(s, F(_)) == Flatten([i \in 1..Len(s) |-> F(s[i])])

Upcase(s)   == MapChars(s, Upper)
Downcase(s) == MapChars(s, Lower)
Capitalize(s) == IF s = <<>> THEN <<>> ELSE Upper(s[1]) \o Tail(s)

RECURSIVE LStrip(_)
LStrip(s) == IF s # <<>> /\ IsWhiteSpace(s[1]) THEN LStrip(Tail(s)) ELSE s
RECURSIVE RStrip(_)
RStrip(s) == IF s # <<>> /\ IsWhiteSpace(s[Len(s)]) THEN RStrip(SubSeq(s, 1, Len(s) - 1)) ELSE s
Strip(s) == LStrip(RStrip(s))
StripNewlines(s) == SelectSeq(s, LAMBDA c : c # LF /\ c # CR)

StartsWith(s, p) == Len(p) <= Len(s) /\ SubSeq(s, 1, Len(p)) = p
\* position (1-based) of the first occurrence of a non-empty pattern, or 0
RECURSIVE FindFrom(_, _, _)
FindFrom(s, p, i) == IF i + Len(p) - 1 > Len(s) THEN 0
                     ELSE IF SubSeq(s, i, i + Len(p) - 1) = p THEN i ELSE FindFrom(s, p, i + 1)
Find(s, p) == FindFrom(s, p, 1)

\* pieces between non-overlapping occurrences, left to right (non-empty pattern)
RECURSIVE Split(_, _)
Split(s, p) == LET i == Find(s, p) IN
               IF i = 0 THEN <<s>>
               ELSE <<SubSeq(s, 1, i - 1)>> \o Split(SubSeq(s, i + Len(p), Len(s)), p)
RECURSIVE Join(_, _)
Join(parts, sep) == IF parts = <<>> THEN <<>>
                    ELSE IF Len(parts) = 1 THEN parts[1]
                    ELSE parts[1] \o sep \o Join(Tail(parts), sep)

Replace(s, p, r) == Join(Split(s, p), r)
ReplaceFirst(s, p, r) == LET i == Find(s, p) IN
                         IF i = 0 THEN s ELSE SubSeq(s, 1, i - 1) \o r \o SubSeq(s, i + Len(p), Len(s))

\* truncate: at most `n` grapheme clusters including the ellipsis
GLen(s) == Len(Graphemes(s))
GTake(s, n) == LET g == Graphemes(s) IN Flatten(SubSeq(g, 1, IF n < Len(g) THEN n ELSE Len(g)))
Truncate(s, n, e) ==
  IF n < 0 THEN s                  \* ImplChoice: a negative limit never truncates (documented by the unit tests)
  ELSE IF GLen(s) <= n THEN s
  ELSE GTake(s, IF n >= GLen(e) THEN n - GLen(e) ELSE 0) \o e

\* truncatewords: words are separated by single spaces
Words(s) == Split(s, <<SP>>)
TruncateWords(s, n, e) ==
  IF n < 0 THEN s
  ELSE IF Len(Words(s)) <= n THEN s
  ELSE Join(SubSeq(Words(s), 1, n), <<SP>>) \o e
\* the property only pins truncatewords down on text whose words are separated by single spaces
PlainWords(s) == /\ \A i \in 1..Len(s) : s[i] \notin {TAB, LF, CR, NBSP}
                 /\ (s # <<>> => s[1] # SP /\ s[Len(s)] # SP)
                 /\ \A i \in 1..(Len(s) - 1) : ~(s[i] = SP /\ s[i + 1] = SP)

\* slice(offset, length): characters; negative offsets count from the end
Slice(s, off, len) ==
  LET n  == Len(s)
      o1 == IF off > n THEN n ELSE off
      o2 == IF o1 < 0 THEN o1 + n ELSE o1
  IN IF o2 < 0 THEN <<>>
     ELSE SubSeq(s, o2 + 1, IF o2 + len > n THEN n ELSE o2 + len)

NewlineToBr(s) == MapChars(s, LAMBDA c : IF c = LF THEN <<60, 98, 114, 32, 47, 62, LF>> ELSE <<c>>)

(* ---- the filter table: name, input string, argument values ---- *)
IsStr(v) == v.k = "str"
Apply(f, s, a) ==
  CASE f = "append"        -> ValR(StrV(s \o a[1].s))
    [] f = "prepend"       -> ValR(StrV(a[1].s \o s))
    [] f = "upcase"        -> ValR(StrV(Upcase(s)))
    [] f = "downcase"      -> ValR(StrV(Downcase(s)))
    [] f = "capitalize"    -> ValR(StrV(Capitalize(s)))
    [] f = "strip"         -> ValR(StrV(Strip(s)))
    [] f = "lstrip"        -> ValR(StrV(LStrip(s)))
    [] f = "rstrip"        -> ValR(StrV(RStrip(s)))
    [] f = "strip_newlines" -> ValR(StrV(StripNewlines(s)))
    [] f = "replace"       -> IF a[1].s = <<>> THEN AnyR ELSE ValR(StrV(Replace(s, a[1].s, a[2].s)))
    [] f = "replace_first" -> IF a[1].s = <<>> THEN AnyR ELSE ValR(StrV(ReplaceFirst(s, a[1].s, a[2].s)))
    [] f = "remove"        -> IF a[1].s = <<>> THEN AnyR ELSE ValR(StrV(Replace(s, a[1].s, <<>>)))
    [] f = "remove_first"  -> IF a[1].s = <<>> THEN AnyR ELSE ValR(StrV(ReplaceFirst(s, a[1].s, <<>>)))
    [] f = "split"         -> IF a[1].s = <<>> THEN AnyR
                              ELSE IF s = <<>> THEN ValR(ArrV(<<>>))
                              ELSE ValR(ArrV([i \in 1..Len(Split(s, a[1].s)) |-> StrV(Split(s, a[1].s)[i])]))
    [] f = "truncate"      -> ValR(StrV(Truncate(s, a[1].n, a[2].s)))
    [] f = "truncatewords" -> IF PlainWords(s) THEN ValR(StrV(TruncateWords(s, a[1].n, a[2].s))) ELSE AnyR
    [] f = "slice"         -> IF a[2].n < 1 THEN ErrR ELSE ValR(StrV(Slice(s, a[1].n, a[2].n)))
    [] f = "slice1"        -> ValR(StrV(Slice(s, a[1].n, 1)))            \* length defaults to 1
    [] f = "size"          -> ValR(IntV(Len(s)))
    [] f = "first"         -> ValR(StrV(IF s = <<>> THEN <<>> ELSE <<s[1]>>))
    [] f = "last"          -> ValR(StrV(IF s = <<>> THEN <<>> ELSE <<s[Len(s)]>>))
    [] f = "newline_to_br" -> ValR(StrV(NewlineToBr(s)))
    [] f = "default"       -> ValR(IF s = <<>> THEN a[1] ELSE StrV(s))

\* the name the template uses
FilterName(f) == IF f = "slice1" THEN "slice" ELSE f

\* a chain is the left-to-right composition of its filters (string-valued links)
RECURSIVE ApplyChain(_, _)
ApplyChain(chain, s) ==
  IF chain = <<>> THEN ValR(StrV(s))
  ELSE LET r == Apply(chain[1].n, s, chain[1].a) IN
       IF Len(chain) = 1 THEN r
       ELSE IF "val" \notin DOMAIN r \/ r.val.k # "str" THEN AnyR
       ELSE ApplyChain(Tail(chain), r.val.s)
=============================================================================
