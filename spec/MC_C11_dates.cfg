SPECIFICATION Spec
CONSTANTS
  EmitAll = TRUE
  PoolSel = "dates"
INVARIANTS Laws Emit
CHECK_DEADLOCK FALSE
