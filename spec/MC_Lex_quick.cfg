SPECIFICATION LSpec
CONSTANTS
  MaxPieces = 2
  MaxPhrase = 2
  MaxTmpl = 0
  MaxDeep = 0
  Hosts = {"out", "assign", "if", "unless", "for", "tablerow", "when", "case", "cycle", "include", "render", "increment", "capture", "break", "ifchanged"}
  EmitAll = TRUE
INVARIANTS Emit
CHECK_DEADLOCK FALSE
