SPECIFICATION Spec
CONSTANTS
  MaxLen = 6
  MaxAttr = 8
  MaxCols = 4
  NestMax = 3
  EmitAll = TRUE
INVARIANTS Inv Emit
PROPERTIES BreakEndsInnermostOnly ElseIffEmpty
CHECK_DEADLOCK FALSE
