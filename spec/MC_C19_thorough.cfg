SPECIFICATION Spec
CONSTANTS
  MaxBody = 2
  EmitAll = TRUE
  Policies = {"eager", "lazy", "ondemand"}
  Repeat = 3
INVARIANTS Inv Emit PoliciesAgree RepeatedUseStable BuildNeverFails
PROPERTIES ErrorOnlyWhenReached
CHECK_DEADLOCK FALSE
