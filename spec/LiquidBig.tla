------------------------------ MODULE LiquidBig ------------------------------
(***************************************************************************)
(* Exact integers beyond TLC's 32-bit range: sign-magnitude numbers with   *)
(* base 10^4 limbs, least significant first (limb products stay below      *)
(* 10^8).  Zero is [neg |-> FALSE, mag |-> <<>>].  Constants are parsed    *)
(* from their decimal text (FromDec) and every 64-bit claim of the         *)
(* arithmetic and value specifications rests on this module; bin/setup     *)
(* cross-checks it against Rust i128 arithmetic.                           *)
(***************************************************************************)
EXTENDS Integers, Sequences, TLC

B == 10000
Big(neg, mag) == [neg |-> neg /\ mag # <<>>, mag |-> mag]
Zero == Big(FALSE, <<>>)

RECURSIVE Strip(_)
Strip(m) == IF m # <<>> /\ m[Len(m)] = 0 THEN Strip(SubSeq(m, 1, Len(m) - 1)) ELSE m

\* -1, 0, 1
RECURSIVE MagCmpFrom(_, _, _)
MagCmpFrom(a, b, i) == IF i = 0 THEN 0 ELSE IF a[i] < b[i] THEN 0 - 1 ELSE IF a[i] > b[i] THEN 1 ELSE MagCmpFrom(a, b, i - 1)
MagCmp(a, b) == IF Len(a) < Len(b) THEN 0 - 1 ELSE IF Len(a) > Len(b) THEN 1 ELSE MagCmpFrom(a, b, Len(a))

Limb(m, i) == IF i <= Len(m) THEN m[i] ELSE 0
RECURSIVE MagAddFrom(_, _, _, _)
MagAddFrom(a, b, i, carry) ==
  IF i > Len(a) /\ i > Len(b) THEN (IF carry = 0 THEN <<>> ELSE <<carry>>)
  ELSE LET s == Limb(a, i) + Limb(b, i) + carry IN <<s % B>> \o MagAddFrom(a, b, i + 1, s \div B)
MagAdd(a, b) == MagAddFrom(a, b, 1, 0)

RECURSIVE MagSubFrom(_, _, _, _)          \* a >= b
MagSubFrom(a, b, i, borrow) ==
  IF i > Len(a) THEN <<>>
  ELSE LET d == Limb(a, i) - Limb(b, i) - borrow IN
       IF d < 0 THEN <<d + B>> \o MagSubFrom(a, b, i + 1, 1) ELSE <<d>> \o MagSubFrom(a, b, i + 1, 0)
MagSub(a, b) == Strip(MagSubFrom(a, b, 1, 0))

RECURSIVE MagMulSmallFrom(_, _, _, _)     \* 0 <= d < B
MagMulSmallFrom(a, d, i, carry) ==
  IF i > Len(a) THEN (IF carry = 0 THEN <<>> ELSE <<carry>>)
  ELSE LET p == a[i] * d + carry IN <<p % B>> \o MagMulSmallFrom(a, d, i + 1, p \div B)
MagMulSmall(a, d) == IF d = 0 THEN <<>> ELSE MagMulSmallFrom(a, d, 1, 0)

Shift(m, k) == IF m = <<>> THEN <<>> ELSE [i \in 1..k |-> 0] \o m
RECURSIVE MagMulFrom(_, _, _)
MagMulFrom(a, b, i) == IF i > Len(b) THEN <<>> ELSE MagAdd(Shift(MagMulSmall(a, b[i]), i - 1), MagMulFrom(a, b, i + 1))
MagMul(a, b) == MagMulFrom(a, b, 1)

\* largest q in lo..hi with q * b <= r   (binary search)
RECURSIVE DigitSearch(_, _, _, _)
DigitSearch(r, b, lo, hi) ==
  IF lo = hi THEN lo
  ELSE LET mid == (lo + hi + 1) \div 2 IN
       IF MagCmp(MagMulSmall(b, mid), r) <= 0 THEN DigitSearch(r, b, mid, hi) ELSE DigitSearch(r, b, lo, mid - 1)
\* long division, most significant limb first: [q, r]
RECURSIVE MagDivFrom(_, _, _, _)
MagDivFrom(a, b, i, r) ==
  IF i = 0 THEN [q |-> <<>>, r |-> r]
  ELSE LET r1 == Strip(<<a[i]>> \o r)
           d  == DigitSearch(r1, b, 0, B - 1)
           r2 == MagSub(r1, MagMulSmall(b, d))
           rest == MagDivFrom(a, b, i - 1, r2)
       IN [q |-> Append(rest.q, d), r |-> rest.r]
MagDivMod(a, b) == LET x == MagDivFrom(a, b, Len(a), <<>>) IN [q |-> Strip(x.q), r |-> x.r]

(* ---- signed ---- *)
Neg(x) == Big(~x.neg, x.mag)
Abs(x) == Big(FALSE, x.mag)
IsZero(x) == x.mag = <<>>
Add(x, y) ==
  IF x.neg = y.neg THEN Big(x.neg, MagAdd(x.mag, y.mag))
  ELSE LET c == MagCmp(x.mag, y.mag) IN
       IF c = 0 THEN Zero ELSE IF c > 0 THEN Big(x.neg, MagSub(x.mag, y.mag)) ELSE Big(y.neg, MagSub(y.mag, x.mag))
Sub(x, y) == Add(x, Neg(y))
Mul(x, y) == Big(x.neg # y.neg, MagMul(x.mag, y.mag))
\* truncated division (toward zero) and its remainder (sign of the dividend), y # 0
DivTrunc(x, y) == Big(x.neg # y.neg, MagDivMod(x.mag, y.mag).q)
RemTrunc(x, y) == Big(x.neg, MagDivMod(x.mag, y.mag).r)
Cmp(x, y) ==      \* -1, 0, 1
  IF x.neg /\ ~y.neg THEN 0 - 1 ELSE IF ~x.neg /\ y.neg THEN 1
  ELSE IF x.neg THEN MagCmp(y.mag, x.mag) ELSE MagCmp(x.mag, y.mag)
Le(x, y) == Cmp(x, y) <= 0
Lt(x, y) == Cmp(x, y) < 0
Max(x, y) == IF Le(x, y) THEN y ELSE x
Min(x, y) == IF Le(x, y) THEN x ELSE y

FromInt(n) ==
  LET a == IF n < 0 THEN 0 - n ELSE n
      RECURSIVE L(_)
      L(v) == IF v = 0 THEN <<>> ELSE <<v % B>> \o L(v \div B)
  IN Big(n < 0, L(a))

(* ---- decimal text ---- *)
Digits10 == "0123456789"
DigitOf(ch) == (CHOOSE i \in 1..10 : SubSeq(Digits10, i, i) = ch) - 1
RECURSIVE NatOf(_, _, _)
NatOf(s, i, acc) == IF i > Len(s) THEN acc ELSE NatOf(s, i + 1, acc * 10 + DigitOf(SubSeq(s, i, i)))
RECURSIVE LimbsOf(_)
LimbsOf(s) ==      \* digits only
  IF Len(s) = 0 THEN <<>>
  ELSE IF Len(s) <= 4 THEN <<NatOf(s, 1, 0)>>
  ELSE <<NatOf(SubSeq(s, Len(s) - 3, Len(s)), 1, 0)>> \o LimbsOf(SubSeq(s, 1, Len(s) - 4))
FromDec(s) ==
  LET neg  == SubSeq(s, 1, 1) = "-"
      body == IF SubSeq(s, 1, 1) \in {"-", "+"} THEN SubSeq(s, 2, Len(s)) ELSE s
  IN Big(neg, Strip(LimbsOf(body)))
Pad4(n) == IF n < 10 THEN "000" \o ToString(n) ELSE IF n < 100 THEN "00" \o ToString(n)
           ELSE IF n < 1000 THEN "0" \o ToString(n) ELSE ToString(n)
RECURSIVE MagDec(_, _)
MagDec(m, i) == IF i = 0 THEN "" ELSE (IF i = Len(m) THEN ToString(m[i]) ELSE Pad4(m[i])) \o MagDec(m, i - 1)
ToDec(x) == IF IsZero(x) THEN "0" ELSE (IF x.neg THEN "-" ELSE "") \o MagDec(x.mag, Len(x.mag))

I64Max == FromDec("9223372036854775807")
I64Min == FromDec("-9223372036854775808")
InI64(x) == Le(I64Min, x) /\ Le(x, I64Max)
Two == FromInt(2)
\* powers of two as a (memoised) function
Pow2F[n \in 0..260] == IF n = 0 THEN FromInt(1) ELSE Mul(Two, Pow2F[n - 1])
Pow2(n) == Pow2F[n]
\* two's-complement wrap of an exact result into 64 bits (what must never be returned)
TwoTo64 == Pow2(64)
Wrap64(x) ==
  LET m == RemTrunc(x, TwoTo64)                  \* in (-2^64, 2^64)
      p == IF m.neg THEN Add(m, TwoTo64) ELSE m  \* in [0, 2^64)
  IN IF Le(p, I64Max) THEN p ELSE Sub(p, TwoTo64)

ASSUME ToDec(FromDec("9223372036854775807")) = "9223372036854775807"
ASSUME ToDec(FromDec("-9223372036854775808")) = "-9223372036854775808"
ASSUME ToDec(Add(I64Max, FromInt(1))) = "9223372036854775808"
ASSUME ToDec(Mul(I64Min, I64Min)) = "85070591730234615865843651857942052864"
ASSUME ToDec(DivTrunc(Mul(I64Min, I64Min), I64Max)) = "9223372036854775809"
ASSUME ToDec(RemTrunc(FromDec("-7"), FromDec("2"))) = "-1"
ASSUME ToDec(Wrap64(Add(I64Max, FromInt(1)))) = "-9223372036854775808"
ASSUME ToDec(Pow2(64)) = "18446744073709551616"
=============================================================================
