------------------------------- MODULE MC_Gen -------------------------------
(* Random deeper programs for the render machine: a generator phase builds  *)
(* a program statement by statement (AddLeaf / Open / Close) up to MaxNodes  *)
(* nodes and MaxDepth nesting over the union of the scoping, loop and        *)
(* partial alphabets; then LiquidInterp runs it.  Meant for `tlc -simulate`: *)
(* every random walk is one program beyond the exhaustive bounds, replayed   *)
(* on the real parser.                                                      *)
EXTENDS LiquidInterp, Json
CONSTANTS MaxNodes, MaxDepth, EmitAll

Txt(c)  == [t |-> "text", c |-> c]
Out(x)  == [t |-> "out", x |-> x]
S(s)    == Lit(StrV(s))
N(n)    == Lit(IntV(n))
Names == {"a", "b", "c"}
Read(n) == [t |-> "if", cond |-> [c |-> "truthy", x |-> V(n)], then |-> <<Out(V(n))>>, else |-> <<Txt("-")>>]
\* print x only where its root name resolves (loop metadata outside a loop is an error, which ends the program)
Guarded(root, x) == [t |-> "if", cond |-> [c |-> "truthy", x |-> V(root)], then |-> <<Out(x)>>, else |-> <<>>]
Range(lo, hi) == [src |-> "range", lo |-> lo, hi |-> hi]
Arg(k, x) == [k |-> k, x |-> x]

Leaves ==
  {Read(n) : n \in Names} \cup {[t |-> "assign", var |-> n, x |-> S("s")] : n \in Names} \cup
  {[t |-> "assign", var |-> "a", x |-> V("b")], [t |-> "assign", var |-> "c", x |-> Dot("forloop", "index")]} \cup
  {[t |-> "inc", var |-> n] : n \in {"a", "c"}} \cup {[t |-> "dec", var |-> "b"]} \cup
  {[t |-> "break"], [t |-> "continue"], Txt("."), Guarded("forloop", Dot("forloop", "index")), Guarded("forloop", Dot("forloop", "rindex0")),
   Guarded("forloop", Var("forloop", <<S("parentloop"), S("length")>>)), Guarded("forloop", Dot("forloop", "last")),
   Guarded("tablerow", Dot("tablerow", "col")), Guarded("i", Var("arr", <<V("i")>>)),
   [t |-> "cycle", key |-> [named |-> TRUE, g |-> "g"], vals |-> <<S("x"), S("y"), S("z")>>],
   [t |-> "cycle", key |-> [named |-> TRUE, g |-> "h"], vals |-> <<V("a"), N(2)>>],
   [t |-> "include", name |-> S("p"), args |-> <<Arg("b", S("i"))>>],
   [t |-> "include", name |-> V("pv"), args |-> <<>>], [t |-> "include", name |-> V("pv"), args |-> <<Arg("pv", S("p"))>>],
   [t |-> "assign", var |-> "a", x |-> N(1)], [t |-> "assign", var |-> "i", x |-> N(2)], [t |-> "assign", var |-> "b", x |-> S("d")],
   [t |-> "render", name |-> S("p"), mode |-> "plain", args |-> <<Arg("a", V("a"))>>],
   [t |-> "render", name |-> S("p2"), mode |-> "for", src |-> Range(N(1), N(2)), as |-> "a", args |-> <<>>],
   [t |-> "render", name |-> S("p2"), mode |-> "with", with |-> V("c"), as |-> "b", args |-> <<>>],
   Out(V("nosuch")), Out(Var("arr", <<N(1)>>)), Out(Dot("obj", "k")), Out(Dot("arr", "size"))}

\* compound headers; the body is filled by the generator
Headers ==
  {[t |-> "for", var |-> n, src |-> Range(N(1), N(3)), lim |-> NoAttr, off |-> NoAttr, rev |-> FALSE, else |-> <<Txt("E")>>] : n \in {"a", "i"}} \cup
  {[t |-> "for", var |-> "i", src |-> [src |-> "expr", x |-> V("arr")], lim |-> AttrOf(N(2)), off |-> AttrOf(N(1)), rev |-> TRUE, else |-> <<>>],
   [t |-> "for", var |-> "b", src |-> Range(V("lo"), V("hi")), lim |-> NoAttr, off |-> AttrOf(V("lo")), rev |-> FALSE, else |-> <<>>],
   [t |-> "for", var |-> "i", src |-> [src |-> "expr", x |-> V("nosuch2")], lim |-> NoAttr, off |-> NoAttr, rev |-> FALSE, else |-> <<>>],
   [t |-> "tablerow", var |-> "i", src |-> Range(N(1), N(3)), lim |-> NoAttr, off |-> NoAttr, cols |-> AttrOf(N(2))],
   [t |-> "capture", var |-> "a"], [t |-> "capture", var |-> "c"], [t |-> "ifchanged"],
   [t |-> "if", cond |-> [c |-> "truthy", x |-> V("a")], else |-> <<Txt("F")>>],
   [t |-> "if", cond |-> [c |-> "bin", op |-> "==", l |-> Dot("forloop", "index"), r |-> N(2)], else |-> <<>>],
   [t |-> "unless", cond |-> [c |-> "or", l |-> [c |-> "truthy", x |-> V("b")], r |-> [c |-> "bin", op |-> "<", l |-> V("lo"), r |-> N(2)]], else |-> <<>>],
   [t |-> "casewhen", x |-> V("lo")]}
Wrap(h, body) ==
  CASE h.t \in {"for", "tablerow", "capture", "ifchanged"} -> [h EXCEPT !.t = h.t] @@ [body |-> body]
    [] h.t \in {"if", "unless"} -> h @@ [then |-> body]
    [] h.t = "casewhen" -> [t |-> "case", x |-> h.x, whens |-> <<[vals |-> <<N(1), N(7)>>, sep |-> ",", body |-> body]>>, else |-> <<Txt("O")>>]

PartSet == [n \in {"p", "p2"} |->
  IF n = "p" THEN [ok |-> TRUE, body |-> <<Txt("("), Read("a"), Read("b"), [t |-> "assign", var |-> "b", x |-> S("q")], [t |-> "inc", var |-> "c"],
                                           [t |-> "cycle", key |-> [named |-> TRUE, g |-> "g"], vals |-> <<S("x"), S("y"), S("z")>>], Txt(")")>>]
  ELSE [ok |-> TRUE, body |-> <<Txt("<"), Read("a"), Read("b"), [t |-> "break"], Txt(">")>>]]
TheData == [n \in {"b", "arr", "obj", "lo", "hi", "pv"} |->
  CASE n = "b" -> StrV("d") [] n = "arr" -> ArrV(<<IntV(4), IntV(5), IntV(6)>>) [] n = "obj" -> ObjV([q \in {"k"} |-> IntV(9)])
    [] n = "lo" -> IntV(1) [] n = "hi" -> IntV(2) [] n = "pv" -> StrV("p2")]

VARIABLES phase, gen, nodes
allv == <<vars, phase, gen, nodes>>
\* gen: stack of open frames [h: header or "root", body]
GInit == /\ phase = "gen" /\ gen = <<[h |-> [t |-> "root"], body |-> <<>>]>> /\ nodes = 0
         /\ prog = <<>> /\ parts = PartSet /\ data = TheData
         /\ SetInit([InitState(<<>>, TheData, 0) EXCEPT !.status = "gen"])
GTop == gen[Len(gen)]
PutTop(fr) == gen' = [gen EXCEPT ![Len(gen)] = fr]
AddLeaf == /\ phase = "gen" /\ nodes < MaxNodes
           /\ \E l \in Leaves : PutTop([GTop EXCEPT !.body = Append(@, l)])
           /\ nodes' = nodes + 1 /\ UNCHANGED <<vars, phase>>
OpenC   == /\ phase = "gen" /\ nodes < MaxNodes - 1 /\ Len(gen) <= MaxDepth
           /\ \E h \in Headers : gen' = Append(gen, [h |-> h, body |-> <<>>])
           /\ nodes' = nodes + 1 /\ UNCHANGED <<vars, phase>>
CloseC  == /\ phase = "gen" /\ Len(gen) > 1
           /\ LET st == Wrap(GTop.h, GTop.body)
                  rest == SubSeq(gen, 1, Len(gen) - 1)
              IN gen' = [rest EXCEPT ![Len(rest)] = [rest[Len(rest)] EXCEPT !.body = Append(@, st)]]
           /\ UNCHANGED <<vars, phase, nodes>>
Start   == /\ phase = "gen" /\ Len(gen) = 1 /\ nodes >= 3
           /\ prog' = gen[1].body /\ phase' = "run"
           /\ Set(InitState(gen[1].body, data, 0))
           /\ UNCHANGED <<parts, data, gen, nodes>>
Run     == phase = "run" /\ Next /\ UNCHANGED <<phase, gen, nodes>>
GNext == AddLeaf \/ OpenC \/ CloseC \/ Start \/ Run
GSpec == GInit /\ [][GNext]_allv

Inv == phase = "run" => /\ TypeOK /\ DataUntouched /\ LayerShape /\ CleanFinish /\ InnermostWins(Names \cup {"forloop", "i"})
                        /\ RenderIsolates /\ VisitsExactlySelected /\ StoreRefinesDecl
Record == [p |-> "GEN", kind |-> "render", prog |-> prog, parts |-> parts, data |-> data, expect |-> Result(St), nt |-> TRUE,
           policies |-> <<"eager", "lazy", "ondemand">>, repeat |-> 2]
Emit == (EmitAll /\ phase = "run" /\ Done) => PrintT(<<"REPLAY", ToJson(Record)>>)
=============================================================================
