----------------------------- MODULE Trace_Calls -----------------------------
(* Trace validation for C01 (totality of parsing on random longer inputs):  *)
(* every recorded Call of Parser::parse must be followed by its Return,     *)
(* which is a template or an error carrying a message.  A call that         *)
(* panicked, aborted or hung has no Return and nothing explains the trace.  *)
EXTENDS Naturals, Sequences, Json, IOUtils, TLC
Rec == ndJsonDeserialize(IOEnv.TRACE)
VARIABLES l, incall
Ev == Rec[l]
TraceInit == l = 1 /\ incall = FALSE
TCall   == l <= Len(Rec) /\ Ev.e = "Call" /\ ~incall /\ incall' = TRUE /\ l' = l + 1
TReturn == /\ l <= Len(Rec) /\ Ev.e = "Return" /\ incall
           /\ (Ev.ok \/ Ev.msglen > 0)                       \* a rejection carries a message
           /\ incall' = FALSE /\ l' = l + 1
TEnd    == l <= Len(Rec) /\ Ev.e = "End" /\ ~incall /\ UNCHANGED incall /\ l' = l + 1
TraceNext == TCall \/ TReturn \/ TEnd
TraceSpec == TraceInit /\ [][TraceNext]_<<l, incall>>
TraceAccepted ==
  LET d == TLCGet("stats").diameter IN
  IF d - 1 = Len(Rec) THEN TRUE
  ELSE Print(<<"TRACE-REJECTED at event", d, IF d <= Len(Rec) THEN Rec[d] ELSE "end">>, FALSE)
=============================================================================
