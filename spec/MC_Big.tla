------------------------------- MODULE MC_Big -------------------------------
(* Self-check of LiquidBig: algebraic identities over a boundary operand    *)
(* pool, and a table the setup step re-computes with Rust i128 arithmetic.  *)
EXTENDS LiquidBig, Json
PoolText == {"0", "1", "-1", "2", "-2", "3", "-3", "7", "-7", "10", "9999", "10000", "10001", "99999999", "100000000",
             "2147483648", "-2147483648", "4611686018427387904", "-4611686018427387904",
             "9223372036854775806", "9223372036854775807", "-9223372036854775808", "-9223372036854775807",
             "18446744073709551616", "340282366920938463463374607431768211455"}
VARIABLE pr
Init == pr \in {<<a, b>> : a \in PoolText, b \in PoolText}
Next == UNCHANGED pr
Spec == Init /\ [][Next]_pr
X == FromDec(pr[1])  Y == FromDec(pr[2])
Laws ==
  /\ ToDec(X) = pr[1]
  /\ Sub(Add(X, Y), Y) = X
  /\ Add(X, Y) = Add(Y, X) /\ Mul(X, Y) = Mul(Y, X)
  /\ (~IsZero(Y)) => /\ Add(Mul(DivTrunc(X, Y), Y), RemTrunc(X, Y)) = X
                     /\ Lt(Abs(RemTrunc(X, Y)), Abs(Y))
  /\ (Cmp(X, Y) = 0) = (X = Y)
  /\ InI64(Wrap64(Mul(X, Y)))
Row == [a |-> pr[1], b |-> pr[2], add |-> ToDec(Add(X, Y)), sub |-> ToDec(Sub(X, Y)), mul |-> ToDec(Mul(X, Y)),
        div |-> IF IsZero(Y) THEN "nan" ELSE ToDec(DivTrunc(X, Y)), rem |-> IF IsZero(Y) THEN "nan" ELSE ToDec(RemTrunc(X, Y)),
        cmp |-> Cmp(X, Y)]
Emit == PrintT(<<"REPLAY", ToJson([p |-> "BIG", kind |-> "bigcheck", row |-> Row])>>)
=============================================================================
