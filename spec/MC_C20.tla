------------------------------ MODULE MC_C20 ------------------------------
EXTENDS LiquidPartials
Terminal == \A t \in Threads : pc[t] = "idle" /\ done[t] = MaxCalls
\* deadlock check with terminal states allowed: stutter when everything is done
MCNext == PNext \/ (Terminal /\ UNCHANGED pvars)
MCSpec == PInit /\ [][MCNext]_pvars
MCFair == MCSpec /\ \A t \in Threads : WF_pvars(Acquire(t) \/ CheckHit(t) \/ ReadSource(t) \/ Compile(t)
                                               \/ Insert(t) \/ Release(t) \/ Return(t))
=============================================================================
