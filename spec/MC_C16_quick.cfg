SPECIFICATION Spec
CONSTANTS
  EscLen = 4
  UrlLen = 4
  TagLen = 4
  TokLen = 3
  EmitAll = TRUE
INVARIANTS Laws Emit
CHECK_DEADLOCK FALSE
