SPECIFICATION Spec
CONSTANTS
  Names = {"a", "b"}
  MaxNodes = 4
  MaxDepth = 3
  EmitAll = TRUE
  WideLeaves = FALSE
INVARIANTS Inv Precedence Emit
PROPERTIES GlobalWrittenOnlyByAssign
CHECK_DEADLOCK FALSE
