SPECIFICATION Spec
CONSTANTS
  MaxLen = 5
  MaxLenAll = 3
  EmitAll = TRUE
INVARIANTS Inv Emit
CHECK_DEADLOCK FALSE
