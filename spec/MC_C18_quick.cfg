SPECIFICATION Spec
CONSTANTS
  Keys = {"a", "b"}
  Vals = {1, 2}
  MaxLen = 3
  EmitAll = TRUE
  PushShapes <- Shapes
INVARIANTS Inv HistoryDeterminesState Emit
PROPERTIES PopRestores SetGlobalLands SetIndexShared PushTransparent
CHECK_DEADLOCK FALSE

