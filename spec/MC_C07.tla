------------------------------ MODULE MC_C07 ------------------------------
(* Bounded instance for property C07 (variable paths and literals): every  *)
(* path of length 1..MaxPath over a nested datum, every array index in     *)
(* [-len-2, len+1] supplied as literal / variable / nested path / string,  *)
(* and literal denotation (integers to the 64-bit limits, decimals,        *)
(* strings, true/false/nil).                                               *)
EXTENDS LiquidInterp, Json

CONSTANTS MaxPath, EmitAll

Out(x)  == [t |-> "out", x |-> x]
K(s)    == Lit(StrV(s))
N(n)    == Lit(IntV(n))
Obj(f)  == ObjV(f)

D == [ o |-> Obj(("1" :> StrV("one")) @@
                 [arr |-> ArrV(<<IntV(10), IntV(20), IntV(30)>>), size |-> IntV(70), first |-> StrV("f"),   \* 70: not the number of keys (7), which the overlay would answer
                  e |-> ArrV(<<>>), n |-> Obj([k |-> StrV("v")]), v |-> IntV(3)]),
       a |-> ArrV(<<Obj([x |-> IntV(1)]), ArrV(<<IntV(5), IntV(6)>>), StrV("str"), NilV>>),
       i |-> IntV(1), j |-> IntV(0 - 1), k |-> StrV("x"), s |-> StrV("arr"), z |-> StrV("1") ]

StepAlphabet ==
  {K(s) : s \in {"arr", "size", "first", "last", "e", "n", "k", "x", "v", "nosuch", "1"}} \cup
  {N(n) : n \in (0 - 4)..3} \cup
  {V(n) : n \in {"i", "j", "k", "s", "z", "nosuch", "a"}} \cup
  {Var("o", <<K("n"), K("k")>>)}

RECURSIVE StepSeqs(_)
StepSeqs(n) == IF n = 0 THEN {<<>>} ELSE {Append(p, s) : p \in StepSeqs(n - 1), s \in StepAlphabet}

PathCases ==
  {[prog |-> <<Out(Var(r, p))>>, data |-> D, fam |-> "path"] :
      r \in {"o", "a", "i", "nosuch"}, p \in UNION {StepSeqs(n) : n \in 0..(MaxPath - 1)}}

(* ---- array indexing ---- *)
Arr(n) == ArrV([q \in 1..n |-> IntV(10 + q)])
IndexCases ==
  UNION {
    {[prog |-> <<Out(Var("arr", <<N(i)>>))>>, data |-> [q \in {"arr"} |-> Arr(n)], fam |-> "index", n |-> n, i |-> i],
     [prog |-> <<Out(Var("arr", <<V("iv")>>))>>,
      data |-> [q \in {"arr", "iv"} |-> IF q = "arr" THEN Arr(n) ELSE IntV(i)], fam |-> "index", n |-> n, i |-> i],
     [prog |-> <<Out(Var("arr", <<V("iv")>>))>>,
      data |-> [q \in {"arr", "iv"} |-> IF q = "arr" THEN Arr(n) ELSE StrV(ToString(i))], fam |-> "index", n |-> n, i |-> i],
     [prog |-> <<Out(Var("arr", <<Var("p", <<K("q")>>)>>))>>,
      data |-> [q \in {"arr", "p"} |-> IF q = "arr" THEN Arr(n) ELSE Obj([q2 \in {"q"} |-> IntV(i)])],
      fam |-> "index", n |-> n, i |-> i]}
    : n \in 0..5, i \in (0 - 7)..6 }

\* first / last / size by their meaning, and an object's own keys win over them
SpecialCases ==
  {[prog |-> <<Out(Var("arr", <<K(w)>>))>>, data |-> [q \in {"arr"} |-> Arr(n)], fam |-> "special", n |-> n, w |-> w] :
      n \in 0..5, w \in {"first", "last", "size"}}

(* ---- literals ---- *)
LitCases ==
  {[prog |-> <<Out(Lit(v))>>, data |-> EmptyMap, fam |-> "lit"] :
      v \in {IntV(n) : n \in (0 - 12)..12} \cup {IntV(99999), IntV(0 - 99999), BoolV(TRUE), BoolV(FALSE), NilV} \cup
            {FloatV(n, d) : n \in (0 - 9)..9, d \in {1, 2, 4, 8}} \cup
            {StrV(s) : s \in {"", " ", "abc", "a b", "it's", "say \"hi\"", "{{", "%}", "a|b", "x:y,z", "'q'", "\"q\"", "'", "\"", "a'", "\"a", "'a", "a\""}}}

\* integer literals as text: what they must print as (canonical decimal), in range
Strip0(s) == LET RECURSIVE F(_)
                 F(i) == IF i < Len(s) /\ CharAt(s, i) = "0" THEN F(i + 1) ELSE SubSeq(s, i, Len(s))
             IN F(1)
CanonInt(t) ==
  LET neg  == CharAt(t, 1) = "-"
      body == Strip0(IF CharAt(t, 1) \in {"-", "+"} THEN SubSeq(t, 2, Len(t)) ELSE t)
  IN IF body = "0" THEN "0" ELSE IF neg THEN "-" \o body ELSE body
I64Max == "9223372036854775807"
I64MinAbs == "9223372036854775808"
DigitsLe(a, b) == Len(a) < Len(b) \/ (Len(a) = Len(b) /\ StrCmp(a, b) \in {"lt", "eq"})
InI64(t) ==
  LET neg  == CharAt(t, 1) = "-"
      body == Strip0(IF CharAt(t, 1) \in {"-", "+"} THEN SubSeq(t, 2, Len(t)) ELSE t)
  IN IF neg THEN DigitsLe(body, I64MinAbs) ELSE DigitsLe(body, I64Max)
IntTexts == {"0", "-0", "+0", "7", "+7", "-7", "007", "-007", "1000000", "4294967296", "-4294967296",
             "2147483647", "2147483648", "-2147483648", "-2147483649",
             "9007199254740993", "-9007199254740993",
             "9223372036854775806", "9223372036854775807", "+9223372036854775807", "09223372036854775807",
             "-9223372036854775807", "-9223372036854775808", "4611686018427387904", "-4611686018427387904"}
\* decimals: canonical form drops trailing fraction zeros and the point if none remain
StripT(s) == LET RECURSIVE G(_)
                 G(i) == IF i >= 1 /\ CharAt(s, i) = "0" THEN G(i - 1) ELSE SubSeq(s, 1, i)
             IN G(Len(s))
CanonDec(sign, whole, frac) ==
  LET w == Strip0(whole)  f == StripT(frac)
      zero == w = "0" /\ f = ""
  IN (IF sign = "-" /\ ~zero THEN "-" ELSE IF sign = "-" THEN "-" ELSE "") \o w \o (IF f = "" THEN "" ELSE "." \o f)
DecTexts == {[sign |-> sg, whole |-> w, frac |-> f] :
               sg \in {"", "-", "+"}, w \in {"0", "1", "12", "007"},
               f \in {"0", "5", "50", "25", "125", "1", "10", "01", "001", "3", "999999", "000001", "500000", "123456"}}
TextCases ==
  {[prog |-> <<>>, data |-> EmptyMap, fam |-> "inttext", text |-> t] : t \in IntTexts} \cup
  {[prog |-> <<>>, data |-> EmptyMap, fam |-> "dectext", text |-> d.sign \o d.whole \o "." \o d.frac,
    want |-> IF CanonDec(d.sign, d.whole, d.frac) = "-0" THEN "-0" ELSE CanonDec(d.sign, d.whole, d.frac)] : d \in DecTexts}

\* size of a string counts characters: strings given as code points (e-acute, u-umlaut, a combining mark, an emoji)
CpStr(cs) == [k |-> "str", s |-> cs]
StrSizeCases ==
  {[prog |-> <<Out(Var("w", <<K("size")>>)), [t |-> "text", c |-> "|"], Out(Var("o", <<K("w"), K("size")>>))>>,
    data |-> [q \in {"w", "o"} |-> IF q = "w" THEN CpStr(cs) ELSE Obj([q2 \in {"w"} |-> CpStr(cs)])], fam |-> "strsize"] :
      cs \in {<<>>, <<97>>, <<233>>, <<90, 252, 114, 105, 99, 104>>, <<101, 769>>, <<128512>>, <<97, 128512, 98>>, <<26085, 26412>>}}

Cases == PathCases \cup IndexCases \cup SpecialCases \cup LitCases \cup TextCases \cup StrSizeCases

VARIABLE case
allvars == <<vars, case>>
Init == /\ case \in Cases
        /\ prog = case.prog /\ data = case.data /\ parts = EmptyMap
        /\ SetInit(InitState(prog, data, 0))
Spec == Init /\ [][Next /\ UNCHANGED case]_allvars

(* ---- properties ---- *)
\* zero-based index, negative counts from the end, nothing else is defined
Elem(n, i) == IF 0 <= i /\ i < n THEN [ok |-> TRUE, out |-> ToString(10 + i + 1)]
              ELSE IF i < 0 /\ 0 - n <= i THEN [ok |-> TRUE, out |-> ToString(10 + n + i + 1)]
              ELSE [ok |-> FALSE]
IndexMeaning == (Done /\ case.fam = "index") => Result(St) = Elem(case.n, case.i)
FirstLastSizeMeaning ==
  (Done /\ case.fam = "special") =>
     Result(St) = CASE case.w = "size"  -> [ok |-> TRUE, out |-> ToString(case.n)]
                    [] case.w = "first" -> Elem(case.n, 0)
                    [] case.w = "last"  -> Elem(case.n, 0 - 1)
\* a missing step is an error, never a blank or a neighbour
MissingStepIsError ==
  (Done /\ case.fam = "path") =>
     (status = "err") = (EvalOpt(BaseLayers(data), prog[1].x) = Missing)
LiteralDenotes ==
  (Done /\ case.fam = "lit") => Result(St) = [ok |-> TRUE, out |-> ToStr(prog[1].x.v)]
ASSUME \A t \in IntTexts : InI64(t)

Inv == TypeOK /\ DataUntouched /\ CleanFinish /\ IndexMeaning /\ FirstLastSizeMeaning
       /\ MissingStepIsError /\ LiteralDenotes

RECURSIVE HasMultiKey(_)
HasMultiKey(v) ==
  CASE v.k = "obj" -> Cardinality(DOMAIN v.o) > 1 \/ \E q \in DOMAIN v.o : HasMultiKey(v.o[q])
    [] v.k = "arr" -> \E i \in 1..Len(v.a) : HasMultiKey(v.a[i])
    [] OTHER -> FALSE

Record ==
  IF case.fam = "inttext" THEN
    [p |-> "C07", kind |-> "source", src |-> "{{ " \o case.text \o " }}", data |-> EmptyMap,
     expect |-> [ok |-> TRUE, out |-> CanonInt(case.text)], nt |-> TRUE]
  ELSE IF case.fam = "dectext" THEN
    [p |-> "C07", kind |-> "source", src |-> "{{ " \o case.text \o " }}", data |-> EmptyMap,
     expect |-> [ok |-> TRUE, out |-> case.want], nt |-> TRUE]
  ELSE [p |-> "C07", kind |-> "render", prog |-> prog, parts |-> parts, data |-> data,
        \* printing an object with several keys follows the unspecified iteration order
        expect |-> IF case.fam = "path" /\ status = "ok" /\ HasMultiKey(EvalOpt(BaseLayers(data), prog[1].x))
                   THEN [ok |-> TRUE, anyout |-> TRUE] ELSE Result(St),
        nt |-> (case.fam # "path" \/ Len(prog[1].x.idx) > 0)]
Emit == (EmitAll /\ Done) => PrintT(<<"REPLAY", ToJson(Record)>>)
=============================================================================
