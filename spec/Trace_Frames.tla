---------------------------- MODULE Trace_Frames ----------------------------
(* Trace validation for the scope frames (C18, C04): hook events recorded   *)
(* from real renders (cfg(liquid_verif), crates/core/src/runtime/           *)
(* verif_trace.rs - the repository's own test suite and the harness         *)
(* corpora) must be a behaviour of LiquidFrames: one logged event = one     *)
(* LiquidFrames action with every argument bound from the log, FInv checked *)
(* in every state.  A Begin line starts one top-level render (a fresh tree),*)
(* End closes it and must find no call in flight.                           *)
EXTENDS LiquidFrames, Json, IOUtils

Rec == ndJsonDeserialize(IOEnv.TRACE)
VARIABLE l
tvars == <<fvars, l>>

Ev == Rec[l]
IsEvent(e) == l <= Len(Rec) /\ Rec[l].e = e /\ l' = l + 1

TraceInit == l = 1 /\ FInit

TBegin == /\ IsEvent("Begin")
          /\ fr' = <<>> /\ yes' = <<>> /\ no' = <<>> /\ pend' = Idle /\ done' = NoCall
TEnd   == /\ IsEvent("End")
          /\ pend = Idle                   \* no delegation chain was cut short
          /\ UNCHANGED fvars
SetOf(q) == {q[i] : i \in 1..Len(q)}
TNew   == IsEvent("New")       /\ IF "keys" \in DOMAIN Ev THEN NewFrameWith(Ev.id, Ev.kind, Ev.parent, TRUE, SetOf(Ev.keys))
                                                            ELSE NewFrame(Ev.id, Ev.kind, Ev.parent)
TAsk   == IsEvent("Ask")       /\ AskStep(Ev.id, Ev.key, Ev.has)
TSetG  == IsEvent("SetGlobal") /\ SetGlobalStep(Ev.id, Ev.key, Ev.stored)
TSetI  == IsEvent("SetIndex")  /\ SetIndexStep(Ev.id, Ev.key, Ev.stored)
TGetI  == IsEvent("GetIndex")  /\ GetIndexStep(Ev.id, Ev.key, Ev.answered, IF Ev.answered THEN Ev.has ELSE FALSE)

TraceNext == TBegin \/ TEnd \/ TNew \/ TAsk \/ TSetG \/ TSetI \/ TGetI
TraceSpec == TraceInit /\ [][TraceNext]_tvars

TraceAccepted ==
  LET d == TLCGet("stats").diameter IN
  IF d - 1 = Len(Rec) THEN TRUE
  ELSE Print(<<"TRACE-REJECTED at event", d, IF d <= Len(Rec) THEN Rec[d] ELSE "end">>, FALSE)
=============================================================================
