SPECIFICATION Spec
CONSTANTS
  MaxSeq = 2
  EmitAll = TRUE
INVARIANTS Inv Emit
PROPERTIES NoWriteAfterFailure
CHECK_DEADLOCK FALSE
