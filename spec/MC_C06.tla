------------------------------ MODULE MC_C06 ------------------------------
(* Bounded instance of LiquidInterp for property C06 (conditionals):       *)
(* every operator x every ordered pair of a value pool, as literals and    *)
(* through variables; if/elsif chains, unless, case/when with comma and    *)
(* or lists, and/or chains under all truth assignments.                    *)
EXTENDS LiquidInterp, Json

CONSTANTS MaxArms, EmitAll, Families

Txt(c)  == [t |-> "text", c |-> c]
L(n)    == Lit(IntV(n))
Obj1(k, v) == ObjV([q \in {k} |-> v])

Scalars == {NilV, BoolV(TRUE), BoolV(FALSE), IntV(0), IntV(1), IntV(2), IntV(0 - 1), IntV(10),
            FloatV(1, 1), FloatV(2, 1), FloatV(1, 2), FloatV(0 - 3, 2),
            StrV("1"), StrV("10"), StrV("abc"), StrV("a"), StrV("b"), StrV("B"), StrV(""), StrV(" "), StrV("true"),
            StateV("empty"), StateV("blank")}
Composite == {ArrV(<<>>), ArrV(<<IntV(1)>>), ArrV(<<IntV(1), IntV(2)>>), ArrV(<<StrV("a")>>), ArrV(<<NilV>>),
              ArrV(<<ArrV(<<IntV(1)>>)>>), ObjV(EmptyMap), Obj1("a", IntV(1)), Obj1("b", IntV(2))}
Pool == Scalars \cup Composite
Ops == {"==", "!=", "<", ">", "<=", ">=", "contains"}

Bin(op, l, r) == [c |-> "bin", op |-> op, l |-> l, r |-> r]
T(x) == [c |-> "truthy", x |-> x]
If_(c, a, b) == [t |-> "if", cond |-> c, then |-> a, else |-> b]
Unless_(c, a, b) == [t |-> "unless", cond |-> c, then |-> a, else |-> b]
Map2(k1, v1, k2, v2) == [q \in {k1, k2} |-> IF q = k1 THEN v1 ELSE v2]

(* ---- family 1: operator x pair ---- *)
PairCases ==
  {[prog |-> <<If_(Bin(op, V("x"), V("y")), <<Txt("T")>>, <<Txt("F")>>)>>,
    data |-> Map2("x", l, "y", r), fam |-> "pairvar"] : op \in Ops, l \in Pool, r \in Pool} \cup
  {[prog |-> <<If_(Bin(op, Lit(l), Lit(r)), <<Txt("T")>>, <<Txt("F")>>)>>,
    data |-> EmptyMap, fam |-> "pairlit"] : op \in Ops, l \in Scalars, r \in Scalars} \cup
  \* bare values: truthiness, as literal, through a variable, and undefined
  {[prog |-> <<If_(T(V("x")), <<Txt("T")>>, <<Txt("F")>>), Unless_(T(V("x")), <<Txt("t")>>, <<Txt("f")>>)>>,
    data |-> [q \in {"x"} |-> v], fam |-> "truthy"] : v \in Pool} \cup
  {[prog |-> <<If_(T(Lit(v)), <<Txt("T")>>, <<Txt("F")>>)>>, data |-> EmptyMap, fam |-> "truthy"] : v \in Scalars} \cup
  {[prog |-> <<If_(T(V("nosuch")), <<Txt("T")>>, <<Txt("F")>>),
               If_(T(Dot("x", "nosuch")), <<Txt("T")>>, <<Txt("F")>>)>>,
    data |-> [q \in {"x"} |-> Obj1("a", IntV(1))], fam |-> "truthy"]}

(* ---- family 2: chains of arms under all truth assignments ---- *)
Tn(i) == "t" \o ToString(i)
Marker(i) == Txt(ToString(i))
RECURSIVE Chain(_, _, _)
\* if t_i .. elsif .. [else]: nested ifs marked for elsif printing
Chain(i, k, withElse) ==
  LET rest == IF i = k THEN (IF withElse THEN <<Txt("E")>> ELSE <<>>)
              ELSE <<[Chain(i + 1, k, withElse) EXCEPT !.ei = TRUE]>>
  IN [t |-> "if", cond |-> T(V(Tn(i))), then |-> <<Marker(i)>>, else |-> rest, ei |-> FALSE]
Assignments(k) == [{Tn(i) : i \in 1..k} -> {BoolV(TRUE), BoolV(FALSE)}]
ChainCases ==
  UNION {{[prog |-> <<Chain(1, k, e)>>, data |-> a, fam |-> "chain"] :
             e \in BOOLEAN, a \in Assignments(k)} : k \in 1..(MaxArms + 1)}

(* ---- family 3: case / when ---- *)
WhenVals == {<<L(1)>>, <<L(2)>>, <<L(1), L(2)>>, <<L(2), L(2)>>, <<L(3), L(1)>>, <<Lit(StrV("1"))>>, <<V("y")>>}
Arm(vals, sep, i) == [vals |-> vals, sep |-> sep, body |-> <<Marker(i)>>]
CaseProg(arms, withElse) ==
  <<[t |-> "case", x |-> V("x"), whens |-> arms, else |-> IF withElse THEN <<Txt("E")>> ELSE <<>>]>>
CaseCases ==
  {[prog |-> CaseProg(<<Arm(a, s, 1)>>, e), data |-> Map2("x", x, "y", IntV(2)), fam |-> "case"] :
      a \in WhenVals, s \in {",", "or"}, e \in BOOLEAN, x \in {IntV(1), IntV(2), IntV(3), StrV("1"), FloatV(2, 1), NilV}} \cup
  {[prog |-> CaseProg(<<Arm(a, ",", 1), Arm(b, "or", 2)>>, e), data |-> Map2("x", x, "y", IntV(2)), fam |-> "case"] :
      a \in WhenVals, b \in WhenVals, e \in BOOLEAN, x \in {IntV(1), IntV(2), IntV(3), StrV("1")}} \cup
  (IF MaxArms < 3 THEN {} ELSE
  {[prog |-> CaseProg(<<Arm(a, ",", 1), Arm(b, "or", 2), Arm(c, ",", 3)>>, TRUE), data |-> Map2("x", x, "y", IntV(2)), fam |-> "case"] :
      a \in WhenVals, b \in WhenVals, c \in WhenVals, x \in {IntV(1), IntV(2), IntV(3)}}) \cup
  \* an undefined name in a when list is an error only if it is reached
  {[prog |-> CaseProg(<<Arm(<<L(1), V("nosuch")>>, ",", 1)>>, TRUE), data |-> Map2("x", x, "y", IntV(2)), fam |-> "case"] :
      x \in {IntV(1), IntV(2)}}

(* ---- family 4: and / or ---- *)
\* atoms: a bare name (undefined counts as false) or a comparison whose
\* left side may be undefined (an error exactly when it is evaluated)
Atom(i) == T(V(Tn(i)))
CmpAtom(i) == Bin("==", V(Tn(i)), Lit(BoolV(TRUE)))
And(a, b) == [c |-> "and", l |-> a, r |-> b]
Or(a, b)  == [c |-> "or", l |-> a, r |-> b]
Shapes(A(_)) ==
  { A(1), And(A(1), A(2)), Or(A(1), A(2)),
    And(And(A(1), A(2)), A(3)), Or(Or(A(1), A(2)), A(3)),
    And(And(And(A(1), A(2)), A(3)), A(4)), Or(Or(Or(A(1), A(2)), A(3)), A(4)),
    Or(A(1), And(A(2), A(3))),                   \* x or y and z
    Or(And(A(1), A(2)), A(3)),                   \* x and y or z
    Or(Or(A(1), And(A(2), A(3))), A(4)),         \* w or x and y or z
    Or(And(A(1), A(2)), And(A(3), A(4))) }
\* partial assignments: a name may be true, false or undefined
PartialAssignments == UNION {[S -> {BoolV(TRUE), BoolV(FALSE)}] : S \in SUBSET {Tn(i) : i \in 1..4}}
LogicCases ==
  {[prog |-> <<If_(c, <<Txt("T")>>, <<Txt("F")>>), Unless_(c, <<Txt("t")>>, <<Txt("f")>>)>>, data |-> a, fam |-> "logic"] :
      c \in Shapes(Atom), a \in Assignments(4)} \cup
  {[prog |-> <<If_(c, <<Txt("T")>>, <<Txt("F")>>)>>, data |-> a, fam |-> "logic"] :
      c \in Shapes(CmpAtom), a \in PartialAssignments}

Cases == (IF "pair" \in Families THEN PairCases ELSE {}) \cup
         (IF "chain" \in Families THEN ChainCases ELSE {}) \cup
         (IF "case" \in Families THEN CaseCases ELSE {}) \cup
         (IF "logic" \in Families THEN LogicCases ELSE {})

VARIABLE case
allvars == <<vars, case>>

Init == /\ case \in Cases
        /\ prog = case.prog /\ data = case.data /\ parts = EmptyMap
        /\ SetInit(InitState(prog, data, 0))
Spec == Init /\ [][Next /\ UNCHANGED case]_allvars

(* ---- declarative meaning of conditions (no evaluation order) ---- *)
Defined(x) == x.e = "lit" \/ EvalOpt(BaseLayers(data), x) # Missing
RECURSIVE Holds(_), Errs(_)
\* an error arises iff an evaluated comparison has an undefined operand
Errs(c) ==
  CASE c.c = "truthy" -> FALSE
    [] c.c = "bin" -> ~Defined(c.l) \/ ~Defined(c.r) \/
                      (c.op = "contains" /\ ~ContainsOk(EvalOpt(BaseLayers(data), c.l)))
    [] c.c = "and" -> Errs(c.l) \/ (Holds(c.l) /\ Errs(c.r))
    [] c.c = "or"  -> Errs(c.l) \/ (~Holds(c.l) /\ Errs(c.r))
Holds(c) ==
  CASE c.c = "truthy" -> Defined(c.x) /\ Truthy(EvalOpt(BaseLayers(data), c.x))
    [] c.c = "bin" -> Defined(c.l) /\ Defined(c.r) /\
                      (IF c.op = "contains" THEN ContainsV(EvalOpt(BaseLayers(data), c.l), EvalOpt(BaseLayers(data), c.r))
                       ELSE CmpOp(c.op, EvalOpt(BaseLayers(data), c.l), EvalOpt(BaseLayers(data), c.r)))
    [] c.c = "and" -> Holds(c.l) /\ Holds(c.r)
    [] c.c = "or"  -> Holds(c.l) \/ Holds(c.r)

\* what an if / unless / chain must print, read off the declarative meaning
RECURSIVE Expected(_)
Expected(s) ==
  IF s.t = "text" THEN [ok |-> TRUE, out |-> s.c]
  ELSE IF Errs(s.cond) THEN [ok |-> FALSE]
  ELSE LET branch == IF Holds(s.cond) = (s.t = "if") THEN s.then ELSE s.else IN
       IF branch = <<>> THEN [ok |-> TRUE, out |-> ""] ELSE Expected(branch[1])

\* C06: exactly one branch, the first whose condition holds; unless negates;
\* `x or y and z` groups as `x or (y and z)` (Holds is defined on the tree)
BranchIsFirstTrue ==
  (Done /\ case.fam \in {"chain", "logic", "truthy", "pairvar", "pairlit"}) =>
     LET e1 == Expected(prog[1]) IN
     IF ~e1.ok THEN status = "err"
     ELSE IF Len(prog) = 1 THEN status = "ok" /\ bufs[1] = e1.out
     ELSE LET e2 == Expected(prog[2]) IN
          IF ~e2.ok THEN status = "err" ELSE status = "ok" /\ bufs[1] = e1.out \o e2.out

\* case: the first arm holding a value equal to the target, else the else branch
CaseIsFirstEqual ==
  (Done /\ case.fam = "case" /\ status = "ok") =>
     LET s == prog[1]
         v == data["x"]
         hit == {w \in 1..Len(s.whens) : \E j \in 1..Len(s.whens[w].vals) :
                    LET a == EvalOpt(BaseLayers(data), s.whens[w].vals[j]) IN a # Missing /\ ValueEq(a, v)}
     IN IF hit = {} THEN bufs[1] = (IF s.else = <<>> THEN "" ELSE "E")
        ELSE bufs[1] = ToString(CHOOSE w \in hit : \A u \in hit : w <= u)

\* the value model's order and equality are coherent on the pool (C06 / C11)
ASSUME \A x \in Pool, y \in Pool :
   /\ ValueEq(x, y) = ValueEq(y, x)
   /\ (ValueCmp(x, y) = "lt") = (ValueCmp(y, x) = "gt")
   /\ ValueCmp(x, y) = "eq" => ValueEq(x, y)
   /\ ValueCmp(x, y) \in {"lt", "gt"} => ~ValueEq(x, y)
   /\ CmpOp("<=", x, y) = (CmpOp("<", x, y) \/ (ValueCmp(x, y) # "none" /\ ValueEq(x, y)))
   /\ CmpOp(">=", x, y) = (CmpOp(">", x, y) \/ (ValueCmp(x, y) # "none" /\ ValueEq(x, y)))

Inv == TypeOK /\ DataUntouched /\ LayerShape /\ CleanFinish /\ BranchIsFirstTrue /\ CaseIsFirstEqual

Record == [p |-> "C06", kind |-> "render", prog |-> prog, parts |-> parts, data |-> data,
           expect |-> Result(St), nt |-> TRUE]
Emit == (EmitAll /\ Done) => PrintT(<<"REPLAY", ToJson(Record)>>)
=============================================================================
