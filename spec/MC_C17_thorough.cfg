SPECIFICATION Spec
CONSTANTS
  YearsFull = {1970, 1971, 1972, 1975, 1976, 1980, 1981, 1984, 1987, 1988, 1992, 1993, 1996, 1998, 1999, 2000, 2001, 2004, 2005, 2008, 2009, 2010, 2012, 2015, 2016, 2019, 2020, 2021, 2024, 2026, 2027, 2028, 2032, 2036, 2037, 2038, 2040}
  EmitAll = TRUE
  Wide = TRUE
INVARIANTS Laws Emit
CHECK_DEADLOCK FALSE
