---------------------------- MODULE LiquidSyntax ----------------------------
(***************************************************************************)
(* The structure of Liquid source at the level the parser protocol works   *)
(* on (crates/core/src/parser/parser.rs parse / TagBlock / BlockElement,   *)
(* grammar.pest LaxLiquidFile, crates/lib/src/stdlib/{blocks,tags}):       *)
(* the lax grammar yields a flat stream of elements; block plugins share   *)
(* one cursor and must stop at their end tag.  The machine below reads a   *)
(* sequence of classified elements with a stack of open blocks and ends    *)
(* with a verdict:                                                         *)
(*   accept       the text parses                                          *)
(*   reject       the parser must return an error (with a message)         *)
(*   unspecified  the property is silent (unbalanced markup inside a       *)
(*                comment): the parser must return, either way            *)
(***************************************************************************)
EXTENDS Naturals, Sequences, TLC

\* element classes
\*  text | out_ok | out_bad | tag_ok | tag_bad | stray_open | stray_close
\*  open (kind, ok) | close (kind) | mid (which: else | elsif | when, ok)
Blocks == {"if", "unless", "for", "tablerow", "case", "capture", "raw", "comment", "ifchanged"}

El(src, cls) == [src |-> src, cls |-> cls]
Open(src, kind, ok) == [src |-> src, cls |-> "open", kind |-> kind, ok |-> ok]
Close(src, kind) == [src |-> src, cls |-> "close", kind |-> kind]
Mid(src, which, ok) == [src |-> src, cls |-> "mid", which |-> which, ok |-> ok]

VARIABLES seq,      \* the element sequence under analysis (constant during a run)
          pos,      \* cursor: next element to read
          stack,    \* open blocks, innermost last: [kind, mode]
          verdict,  \* "pending" | "accept" | "reject" | "unspecified"
          tainted   \* the cursor has been inside a region the property is silent about
svars == <<seq, pos, stack, verdict, tainted>>

Top == IF stack = <<>> THEN [kind |-> "none", mode |-> "none"] ELSE stack[Len(stack)]
Push(k, m) == stack' = Append(stack, [kind |-> k, mode |-> m])
Pop == stack' = SubSeq(stack, 1, Len(stack) - 1)
SetMode(m) == stack' = [stack EXCEPT ![Len(stack)] = [kind |-> Top.kind, mode |-> m]]
Advance == pos' = pos + 1
Decide(v) == verdict' = (IF tainted THEN "unspecified" ELSE v) /\ UNCHANGED <<pos, stack, tainted>>
Cur == seq[pos]
Running == verdict = "pending"
AtEnd == pos > Len(seq)

\* which middle tags a block accepts in which mode
MidAllowed(kind, mode, which) ==
  CASE kind = "if"     -> mode = "body" /\ which \in {"else", "elsif"}
    [] kind = "unless" -> mode = "body" /\ which = "else"
    [] kind = "for"    -> mode = "body" /\ which = "else"
    [] kind = "case"   -> (which = "when" /\ mode \in {"beforewhen", "body"}) \/ (which = "else" /\ mode \in {"beforewhen", "body"})
    [] OTHER -> FALSE
MidMode(kind, which) == IF which = "else" THEN "afterelse" ELSE "body"

(* ---- actions: one per element read ---- *)
\* end of input: EOI inside a block is the `Unclosed block` error
Eoi == /\ Running /\ AtEnd
       /\ IF stack = <<>> THEN Decide("accept")
          ELSE IF \E i \in 1..Len(stack) : stack[i].mode = "unspec" THEN Decide("unspecified")
          ELSE Decide("reject")

\* inside {% raw %}: everything is text until {% endraw %}
RawScan == /\ Running /\ ~AtEnd /\ stack # <<>> /\ Top.kind = "raw"
           /\ IF Cur.cls = "close" /\ Cur.kind = "raw" THEN Pop ELSE UNCHANGED stack
           /\ Advance /\ UNCHANGED <<verdict, tainted>>

\* inside {% comment %}: only tags are looked at; comments nest; any other block
\* opener hands the shared cursor to that block's parser (outcome unspecified)
CommentScan ==
  /\ Running /\ ~AtEnd /\ stack # <<>> /\ Top.kind = "comment"
  /\ CASE Cur.cls = "close" /\ Cur.kind = "comment" -> Pop /\ Advance /\ UNCHANGED <<verdict, tainted>>
       [] Cur.cls = "open" /\ Cur.kind = "comment" /\ Cur.ok -> Push("comment", Top.mode) /\ Advance /\ UNCHANGED <<verdict, tainted>>
       [] Cur.cls = "open" -> SetMode("unspec") /\ tainted' = TRUE /\ Advance /\ UNCHANGED verdict
       [] OTHER -> Advance /\ UNCHANGED <<stack, verdict, tainted>>

\* everywhere else (top level or inside a parsing block)
Normal == Running /\ ~AtEnd /\ (stack = <<>> \/ Top.kind \notin {"raw", "comment"})
InUnspec == stack # <<>> /\ \E i \in 1..Len(stack) : stack[i].mode = "unspec"
Fail == IF InUnspec THEN Decide("unspecified") ELSE Decide("reject")

PlainElement == /\ Normal /\ Cur.cls \in {"text", "out_ok", "tag_ok", "stray_close"}
                /\ Advance /\ UNCHANGED <<stack, verdict, tainted>>
BadElement   == /\ Normal /\ Cur.cls \in {"out_bad", "tag_bad", "stray_open"}
                /\ Fail
OpenBlock    == /\ Normal /\ Cur.cls = "open"
                /\ IF ~Cur.ok THEN Fail
                   ELSE /\ Push(Cur.kind, IF InUnspec THEN "unspec" ELSE IF Cur.kind = "case" THEN "beforewhen" ELSE "body")
                        /\ Advance /\ UNCHANGED <<verdict, tainted>>
CloseBlock   == /\ Normal /\ Cur.cls = "close"
                /\ IF stack # <<>> /\ Top.kind = Cur.kind THEN Pop /\ Advance /\ UNCHANGED <<verdict, tainted>>
                   ELSE Fail                            \* end tag without its opener / mis-nested
MidTag       == /\ Normal /\ Cur.cls = "mid"
                \* if / unless do not look at the arguments of their else (if_block.rs); for and case do (expect_nothing)
                /\ IF stack # <<>> /\ (Cur.ok \/ (Cur.which = "else" /\ Top.kind \in {"if", "unless"}))
                      /\ MidAllowed(Top.kind, Top.mode, Cur.which)
                   THEN SetMode(IF Top.mode = "unspec" THEN "unspec" ELSE MidMode(Top.kind, Cur.which)) /\ Advance /\ UNCHANGED <<verdict, tainted>>
                   ELSE IF stack # <<>> /\ Top.mode = "unspec" THEN Advance /\ UNCHANGED <<stack, verdict, tainted>>
                   ELSE Fail

SNext == /\ (Eoi \/ RawScan \/ CommentScan \/ PlainElement \/ BadElement \/ OpenBlock \/ CloseBlock \/ MidTag)
         /\ UNCHANGED seq

SInit(s) == seq = s /\ pos = 1 /\ stack = <<>> /\ verdict = "pending" /\ tainted = FALSE

(* ---- properties of the protocol ---- *)
\* from every reachable state with input left (or at EOI) exactly one action is enabled: no `expect` can fire
NeverStuck == Running => ENABLED SNext
\* a decided run has read a prefix of the input and, on accept, closed every block
ClosedOnAccept == verdict = "accept" => stack = <<>> /\ pos = Len(seq) + 1 /\ ~tainted
Source == LET RECURSIVE S(_)
              S(i) == IF i > Len(seq) THEN "" ELSE seq[i].src \o S(i + 1)
          IN S(1)
SourceSpaced == LET RECURSIVE S(_)
                    S(i) == IF i > Len(seq) THEN "" ELSE seq[i].src \o " " \o S(i + 1)
                IN S(1)
=============================================================================
