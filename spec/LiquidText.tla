----------------------------- MODULE LiquidText -----------------------------
(***************************************************************************)
(* Literal text, delimiter trim markers, raw and comment blocks            *)
(* (crates/core/src/parser/grammar.pest: Raw, TagStart/TagEnd,             *)
(* ExpressionStart/ExpressionEnd; parser/text.rs; raw_block.rs;            *)
(* comment_block.rs).  Text is a sequence of Unicode scalar values.        *)
(*                                                                         *)
(* A template is a sequence of items                                       *)
(*   [t:"text", c]                      literal text                       *)
(*   [t:"out", tl, tr, pad]             {{ 'X' }}     prints X             *)
(*   [t:"tag", tl, tr, pad]             {% assign z = 1 %}   prints nothing*)
(*   [t:"block", kind, tl1, tr1, tl2, tr2, body]   kind in if/raw/comment  *)
(* tl/tr say whether the left/right delimiter carries the trim marker.     *)
(***************************************************************************)
EXTENDS Naturals, Sequences, SequencesExt

SP == 32  TAB == 9  LF == 10  CR == 13
\* what the property calls whitespace
PropertyWs == {SP, TAB, LF, CR}
\* what the grammar's WHITESPACE rule accepts (" " | "\t" | NEWLINE)
GrammarWs == {SP, TAB, LF, CR}

Str(s) == s   \* texts are already sequences of code points

RECURSIVE DropLeft(_, _)
DropLeft(s, ws) == IF s # <<>> /\ s[1] \in ws THEN DropLeft(Tail(s), ws) ELSE s
RECURSIVE DropRight(_, _)
DropRight(s, ws) == IF s # <<>> /\ s[Len(s)] \in ws THEN DropRight(SubSeq(s, 1, Len(s) - 1), ws) ELSE s

\* ASCII helpers to spell markup
Chars(str) == str   \* placeholder: markup is given directly as code points below
Open2  == <<123, 123>>   \* {{
Close2 == <<125, 125>>   \* }}
OpenT  == <<123, 37>>    \* {%
CloseT == <<37, 125>>    \* %}
Dash   == <<45>>
Pad(n) == [i \in 1..n |-> SP]
X      == <<39, 88, 39>>                     \* 'X'
AssignZ == <<97,115,115,105,103,110, 32, 122, 32, 61, 32, 49>>    \* assign z = 1
IfTrue == <<105,102, 32, 116,114,117,101>>   \* if true
EndIf  == <<101,110,100,105,102>>            \* endif
Raw_   == <<114,97,119>>                     \* raw
EndRaw == <<101,110,100,114,97,119>>         \* endraw
Comment_ == <<99,111,109,109,101,110,116>>   \* comment
EndComment == <<101,110,100,99,111,109,109,101,110,116>>

TagSrc(inner, tl, tr, pad) ==
  OpenT \o (IF tl THEN Dash ELSE <<>>) \o Pad(pad) \o inner \o Pad(pad) \o (IF tr THEN Dash ELSE <<>>) \o CloseT
OutSrc(tl, tr, pad) ==
  Open2 \o (IF tl THEN Dash ELSE <<>>) \o Pad(pad) \o X \o Pad(pad) \o (IF tr THEN Dash ELSE <<>>) \o Close2

OpenWord(kind)  == CASE kind = "if" -> IfTrue [] kind = "raw" -> Raw_ [] kind = "comment" -> Comment_
CloseWord(kind) == CASE kind = "if" -> EndIf [] kind = "raw" -> EndRaw [] kind = "comment" -> EndComment

ItemSrc(it) ==
  CASE it.t = "text"  -> it.c
    [] it.t = "out"   -> OutSrc(it.tl, it.tr, it.pad)
    [] it.t = "tag"   -> TagSrc(AssignZ, it.tl, it.tr, it.pad)
    [] it.t = "block" -> TagSrc(OpenWord(it.kind), it.tl1, it.tr1, 1) \o it.body
                         \o TagSrc(CloseWord(it.kind), it.tl2, it.tr2, 1)

RECURSIVE Source(_)
Source(t) == IF t = <<>> THEN <<>> ELSE ItemSrc(t[1]) \o Source(Tail(t))

\* trim flags a neighbour presents towards a text segment
TrimsRightward(it) == CASE it.t = "text" -> FALSE [] it.t = "block" -> it.tr2 [] OTHER -> it.tr
TrimsLeftward(it)  == CASE it.t = "text" -> FALSE [] it.t = "block" -> it.tl1 [] OTHER -> it.tl

\* what one item contributes, given whether the items before / after it trim
\* towards it; ws is the whitespace class in force
ItemOut(it, trimL, trimR, ws) ==
  CASE it.t = "text"  ->
         LET a == IF trimL THEN DropLeft(it.c, ws) ELSE it.c IN
         IF trimR THEN DropRight(a, ws) ELSE a
    [] it.t = "out"   -> <<88>>
    [] it.t = "tag"   -> <<>>
    [] it.t = "block" ->
         IF it.kind = "comment" THEN <<>>
         ELSE \* if-true and raw: the body, minus the whitespace runs touching trimming delimiters
              LET a == IF it.tr1 THEN DropLeft(it.body, ws) ELSE it.body IN
              IF it.tl2 THEN DropRight(a, ws) ELSE a

RenderWith(t, ws) ==
  LET RECURSIVE R(_)
      R(i) == IF i > Len(t) THEN <<>>
              ELSE ItemOut(t[i],
                           i > 1 /\ TrimsRightward(t[i - 1]),
                           i < Len(t) /\ TrimsLeftward(t[i + 1]), ws) \o R(i + 1)
  IN R(1)

\* property layer / implementation-shaped layer
Expected(t) == RenderWith(t, PropertyWs)
GrammarOutput(t) == RenderWith(t, GrammarWs)

(* ---- laws ---- *)
HasMarkup(t) == \E i \in 1..Len(t) : t[i].t # "text"
IdentityOnPlainText(t) == ~HasMarkup(t) => Expected(t) = Source(t)
GrammarLayerRefinesExpected(t) == GrammarOutput(t) = Expected(t)
\* only whitespace is ever removed from text: the non-whitespace characters of
\* all text items survive, in order
NonWs(s) == SelectSeq(s, LAMBDA c : c \notin PropertyWs)
RECURSIVE TextNonWs(_)
TextNonWs(t) == IF t = <<>> THEN <<>>
                ELSE (IF t[1].t = "text" THEN NonWs(t[1].c) ELSE <<>>) \o TextNonWs(Tail(t))
=============================================================================
