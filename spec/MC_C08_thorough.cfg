SPECIFICATION Spec
CONSTANTS
  MaxBody = 2
  EmitAll = TRUE
  Policies = {"eager"}
  Repeat = 1
INVARIANTS Inv Emit
PROPERTIES ErrorOnlyWhenReached
CHECK_DEADLOCK FALSE
