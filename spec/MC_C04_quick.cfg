SPECIFICATION Spec
CONSTANTS
  Names = {"a", "b"}
  MaxNodes = 3
  MaxDepth = 2
  EmitAll = TRUE
  WideLeaves = TRUE
INVARIANTS Inv Precedence Emit
PROPERTIES GlobalWrittenOnlyByAssign
CHECK_DEADLOCK FALSE
