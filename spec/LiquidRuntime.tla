--------------------------- MODULE LiquidRuntime ---------------------------
(***************************************************************************)
(* The scope-layer stack of liquid-core's render runtime                   *)
(* (crates/core/src/runtime/{runtime,stack}.rs, model/find.rs).            *)
(*                                                                         *)
(* State: a sequence of layers, bottom first.  RuntimeBuilder::build()     *)
(* makes  core / index / data(caller globals) / global ; plugins push      *)
(* StackFrame ("plain"), SandboxedStackFrame ("sandbox") and GlobalFrame   *)
(* ("global") on top and drop them again.                                  *)
(*                                                                         *)
(* Two layers of definition:                                               *)
(*  - implementation-shaped: every operator named Chain* follows the       *)
(*    delegation code frame by frame ("answer iff contains_key(first       *)
(*    path key), else ask the parent"; sandbox never asks).                *)
(*  - declarative: Decl* = "topmost visible map that defines the name".    *)
(* The invariants at the end relate the two; MC_C18 bounds the space and   *)
(* emits every trace for replay on the real frame types.                   *)
(***************************************************************************)
EXTENDS Naturals, Sequences, FiniteSets, TLC

CONSTANTS Keys,      \* root names, e.g. {"a","b"}
          Vals       \* scalars assignable by SetGlobal / SetIndex

Sub   == {"x", "size", "y"}                \* second path components
Shape == {"absent", "scalar", "object"}    \* what a pushed map holds per key

(* ---- values (tagged records: TLC cannot compare ints with records) ---- *)
Int(n) == [k |-> "int", n |-> n]
Obj(n) == [k |-> "obj", x |-> n]           \* the one-key object {x: n}
None   == [k |-> "none"]

DecLen(n) == IF n < 10 THEN 1 ELSE IF n < 100 THEN 2 ELSE IF n < 1000 THEN 3 ELSE 4

\* model/find.rs augmented_get, for the value shapes used here
AugGet(v, j) ==
  CASE v.k = "obj" -> IF j = "x" THEN Int(v.x)
                      ELSE IF j = "size" THEN Int(1) ELSE None
    [] v.k = "int" -> IF j = "size" THEN Int(DecLen(v.n)) ELSE None
    [] OTHER       -> None

\* try_find(layer object, path) when the first key is present in the layer
TryFindIn(m, p) == IF Len(p) = 1 THEN m[p[1]] ELSE AugGet(m[p[1]], p[2])

Paths == {<<k>> : k \in Keys} \cup {<<k, j>> : k \in Keys, j \in Sub}

(* ---- layers ---- *)
Layer(kind, m) == [kind |-> kind, m |-> m]
EmptyMap == [k \in {} |-> None]

\* the concrete map a push at stack position h creates from a shape function
\* (values are tagged with h so that shadowing by an equal map is visible)
MapOf(shape, h) ==
  [k \in {q \in Keys : shape[q] # "absent"} |->
      IF shape[k] = "scalar" THEN Int(10 + h) ELSE Obj(20 + h)]

Shapes == [Keys -> Shape]

BaseStack(shape) ==
  << Layer("core", EmptyMap), Layer("index", EmptyMap),
     Layer("data", MapOf(shape, 3)), Layer("global", EmptyMap) >>
BaseLen == 4

Top(s)  == s[Len(s)]
Rest(s) == SubSeq(s, 1, Len(s) - 1)

(* ======================= implementation-shaped ======================== *)

RECURSIVE ChainTryGet(_, _)
ChainTryGet(s, p) ==
  IF s = <<>> THEN None
  ELSE LET t == Top(s) IN
    CASE t.kind = "core"    -> None
      [] t.kind = "sandbox" -> IF p[1] \in DOMAIN t.m THEN TryFindIn(t.m, p) ELSE None
      [] OTHER              -> IF p[1] \in DOMAIN t.m THEN TryFindIn(t.m, p)
                               ELSE ChainTryGet(Rest(s), p)

Ok(v)  == [ok |-> TRUE,  v |-> v]
Err(e) == [ok |-> FALSE, e |-> e]

\* find(): Ok, or "Unknown index" when a later step is missing
FindIn(m, p) == LET r == TryFindIn(m, p) IN IF r = None THEN Err("index") ELSE Ok(r)

RECURSIVE ChainGet(_, _)
ChainGet(s, p) ==
  IF s = <<>> THEN Err("variable")
  ELSE LET t == Top(s) IN
    CASE t.kind = "core"    -> Err("variable")
      [] t.kind = "sandbox" ->
           IF p[1] \in DOMAIN t.m /\ TryFindIn(t.m, p) # None
           THEN Ok(TryFindIn(t.m, p)) ELSE Err("variable")
      [] OTHER -> IF p[1] \in DOMAIN t.m THEN FindIn(t.m, p) ELSE ChainGet(Rest(s), p)

RECURSIVE ChainRoots(_)
ChainRoots(s) ==
  IF s = <<>> THEN {}
  ELSE LET t == Top(s) IN
    CASE t.kind = "core"    -> {}
      [] t.kind = "sandbox" -> DOMAIN t.m
      [] OTHER              -> ChainRoots(Rest(s)) \cup DOMAIN t.m

\* set_global: every frame forwards to its parent except GlobalFrame
RECURSIVE GlobalTarget(_)
GlobalTarget(s) ==      \* index (position in s) of the layer that stores it
  IF Top(s).kind = "global" THEN Len(s) ELSE GlobalTarget(Rest(s))

\* set_index / get_index: every frame forwards except IndexFrame
RECURSIVE IndexTarget(_)
IndexTarget(s) == IF Top(s).kind = "index" THEN Len(s) ELSE IndexTarget(Rest(s))

ChainGetIndex(s, k) ==
  LET m == s[IndexTarget(s)].m IN IF k \in DOMAIN m THEN m[k] ELSE None

\* registers(): sandbox owns a set, core owns a set, the rest forward
RECURSIVE RegsOwner(_)
RegsOwner(s) ==
  IF Top(s).kind \in {"sandbox", "core"} THEN Len(s) ELSE RegsOwner(Rest(s))

MapPut(m, k, v) == [q \in DOMAIN m \cup {k} |-> IF q = k THEN v ELSE m[q]]

(* ---- operations ---- *)
Ops ==
  {[op |-> "PushPlain",   d |-> sh] : sh \in Shapes} \cup
  {[op |-> "PushSandbox", d |-> sh] : sh \in Shapes} \cup
  {[op |-> "PushGlobal"], [op |-> "Pop"]} \cup
  {[op |-> "SetGlobal", key |-> k, v |-> v] : k \in Keys, v \in Vals} \cup
  {[op |-> "SetIndex",  key |-> k, v |-> v] : k \in Keys, v \in Vals}

Enabled(s, o) == o.op = "Pop" => Len(s) > BaseLen

Apply(s, o) ==
  CASE o.op = "PushPlain"   -> Append(s, Layer("plain",   MapOf(o.d, Len(s) + 1)))
    [] o.op = "PushSandbox" -> Append(s, Layer("sandbox", MapOf(o.d, Len(s) + 1)))
    [] o.op = "PushGlobal"  -> Append(s, Layer("global", EmptyMap))
    [] o.op = "Pop"         -> Rest(s)
    [] o.op = "SetGlobal"   ->
         LET i == GlobalTarget(s) IN
         [s EXCEPT ![i] = Layer(s[i].kind, MapPut(s[i].m, o.key, Int(o.v)))]
    [] o.op = "SetIndex"    ->
         LET i == IndexTarget(s) IN
         [s EXCEPT ![i] = Layer(s[i].kind, MapPut(s[i].m, o.key, Int(o.v)))]

(* ============================ declarative ============================= *)
\* The visible part of the stack: from the topmost sandbox (inclusive) up.
SandboxPositions(s) == {i \in 1..Len(s) : s[i].kind = "sandbox"}
VisibleFrom(s) ==
  IF SandboxPositions(s) = {} THEN 1
  ELSE CHOOSE i \in SandboxPositions(s) : \A j \in SandboxPositions(s) : j <= i

Defines(s, k) == {i \in VisibleFrom(s)..Len(s) : k \in DOMAIN s[i].m}

\* innermost (topmost) visible layer that defines the root name
DeclBinding(s, k) ==
  IF Defines(s, k) = {} THEN None
  ELSE LET i == CHOOSE i \in Defines(s, k) : \A j \in Defines(s, k) : j <= i
       IN  s[i].m[k]

DeclTryGet(s, p) ==
  LET b == DeclBinding(s, p[1]) IN
  IF b = None THEN None ELSE IF Len(p) = 1 THEN b ELSE AugGet(b, p[2])

DeclRoots(s) == {k \in Keys : DeclBinding(s, k) # None}

\* nearest enclosing global layer = the topmost "global" anywhere below the top,
\* sandboxes do not stop the search (set_global is forwarded by every frame)
DeclGlobalTarget(s) ==
  CHOOSE i \in 1..Len(s) : s[i].kind = "global" /\
      \A j \in 1..Len(s) : s[j].kind = "global" => j <= i

(* ============================ properties ============================== *)
\* all stated for every observable frame = every prefix of the stack that
\* ends at or above the builder's global frame
Prefixes(s) == {SubSeq(s, 1, n) : n \in BaseLen..Len(s)}

ChainEqualsDeclarative(s) ==
  \A f \in Prefixes(s) : \A p \in Paths : ChainTryGet(f, p) = DeclTryGet(f, p)

GetAgreesWithTryGet(s) ==
  \A f \in Prefixes(s) : \A p \in Paths :
     LET g == ChainGet(f, p)  t == ChainTryGet(f, p) IN
       /\ g.ok <=> t # None
       /\ g.ok => g.v = t

RootsAreResolvableNames(s) ==
  \A f \in Prefixes(s) :
     /\ ChainRoots(f) = DeclRoots(f)
     /\ ChainRoots(f) = {k \in Keys : ChainTryGet(f, <<k>>) # None}

SandboxHidesOuter(s) ==
  \A f \in Prefixes(s) :
     Top(f).kind = "sandbox" =>
        \A p \in Paths : p[1] \notin DOMAIN Top(f).m => ChainTryGet(f, p) = None

CountersShared(s) ==
  \A f \in Prefixes(s) : \A k \in Keys : ChainGetIndex(f, k) = ChainGetIndex(s, k)

GlobalTargetIsNearest(s) ==
  \A f \in Prefixes(s) : GlobalTarget(f) = DeclGlobalTarget(f)

StateInv(s) ==
  /\ ChainEqualsDeclarative(s)
  /\ GetAgreesWithTryGet(s)
  /\ RootsAreResolvableNames(s)
  /\ SandboxHidesOuter(s)
  /\ CountersShared(s)
  /\ GlobalTargetIsNearest(s)

\* --- step properties (used as action properties by MC_C18) ---
AllAnswers(s) == [p \in Paths |-> ChainTryGet(s, p)]

\* Pop: the uncovered runtime answers exactly as the same layers did before
PopRestoresStep(s, s2) ==
  \A p \in Paths : ChainTryGet(s2, p) = ChainTryGet(Rest(s), p)

\* SetGlobal(k,v): exactly the nearest global layer changes, it then maps k
\* to v, and a frame sees v iff nothing between it and that layer defines k
\* or is a sandbox
SetGlobalStep(s, s2, k, v) ==
  LET i == DeclGlobalTarget(s) IN
  /\ Len(s2) = Len(s)
  /\ \A j \in 1..Len(s) : j # i => s2[j] = s[j]
  /\ s2[i].m[k] = Int(v)
  /\ \A q \in DOMAIN s[i].m : q # k => s2[i].m[q] = s[i].m[q]
  /\ \A n \in i..Len(s) :
       LET f == SubSeq(s2, 1, n)
           clear == \A j \in (i+1)..n : s2[j].kind # "sandbox" /\ k \notin DOMAIN s2[j].m
       IN  clear => ChainTryGet(f, <<k>>) = Int(v)

\* SetIndex(k,v): only the counter layer changes; every frame reads v back
SetIndexStep(s, s2, k, v) ==
  /\ \A j \in 1..Len(s) : s[j].kind # "index" => s2[j] = s[j]
  /\ \A f \in Prefixes(s2) : ChainGetIndex(f, k) = Int(v)

(* ---- encoding of observations for replay (ints only, compact) ---- *)
Enc(v) == CASE v.k = "none" -> 0 [] v.k = "int" -> v.n [] v.k = "obj" -> 1000 + v.x
=============================================================================
