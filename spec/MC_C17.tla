------------------------------ MODULE MC_C17 ------------------------------
(* Bounded instance of LiquidDates for property C17: calendar self-checks,  *)
(* print/parse round trip, and every directive x flag x width on boundary   *)
(* timestamps.                                                              *)
EXTENDS LiquidDates, Json
CONSTANTS YearsFull, EmitAll, Wide

T(y, mo, d, h, mi, s, ns, off) == [y |-> y, mo |-> mo, d |-> d, h |-> h, mi |-> mi, s |-> s, ns |-> ns, off |-> off]
\* day boundary cases of a year: first/last day, leap day neighbourhood, ISO-week-year edges
EdgeDays(y) == {<<1, d>> : d \in 1..7} \cup {<<12, d>> : d \in 25..31} \cup {<<2, 28>>, <<3, 1>>, <<6, 15>>}
               \cup (IF IsLeap(y) THEN {<<2, 29>>} ELSE {})
Years == YearsFull \cup {1, 1000, 9999}
Offsets == {0, 3600, 0 - 43200, 50400, 19800, 20700, 0 - 12600}
Nanos == {0, 5000000, 1000, 1, 123456789, 999999999, 500000000}
Stamps ==
  UNION {{T(y, md[1], md[2], 12, 34, 56, 0, 0) : md \in EdgeDays(y)} : y \in Years} \cup
  {T(2016, 2, 16, h, 5, 9, 0, 3600) : h \in 0..23} \cup
  {T(2016, 2, 16, 10, 0, 0, ns, off) : ns \in Nanos, off \in Offsets} \cup
  {T(2024, 12, 31, 23, 59, 59, 999999999, off) : off \in Offsets} \cup {T(1970, 1, 1, 0, 0, 0, 0, 0), T(2000, 2, 29, 0, 0, 1, 5000000, 0 - 12600)}

NumericChars == {"Y","C","y","m","d","e","j","H","k","I","l","M","S","u","w","U","W","G","g","V","s"}
AlphaChars == {"B","b","h","A","a","p","P"}
OtherChars == {"%","n","t","L","N","z","Z","F","R","T","X","D","x","r","c","v"}
UnknownChars == {"Q", "J", "f", "i", "E", "O", "K", "q"}
FlagSets == {<<>>, <<"-">>, <<"_">>, <<"0">>, <<"^">>, <<"#">>, <<"_", "0">>, <<"0", "-">>, <<"^", "_">>}
Widths == {0 - 1, 1, 3, 6, 12}
Dv(fl, w, ch) == [flags |-> fl, width |-> w, ch |-> CodeOf[ch]]
Directives == {Dv(fl, w, ch) : fl \in FlagSets, w \in Widths, ch \in NumericChars \cup AlphaChars \cup OtherChars} \cup
              {Dv(<<>>, w, ch) : w \in {0 - 1, 3}, ch \in UnknownChars \ {"E", "O"}}
\* formats: one directive; a directive between literal text; concatenations; malformed
Formats ==
  {<<d>> : d \in Directives} \cup
  {<<Lit(91), d, Lit(93), Lit(233)>> : d \in {x \in Directives : x.flags = <<>> /\ x.width < 0}} \cup
  {<<Dv(<<>>, 0 - 1, a), Lit(45), Dv(<<>>, 0 - 1, b)>> : a \in {"Y", "j", "a", "L"}, b \in {"m", "V", "N", "Q"}} \cup
  \* a flagged (or case-changing composite) directive followed by plain ones: flags, case and padding are per directive
  {<<Dv(fl, 0 - 1, a), Lit(32), Dv(<<>>, 0 - 1, b)>> : fl \in {<<"^">>, <<"#">>, <<"-">>, <<"0">>, <<"_">>}, a \in {"a", "B", "d", "v", "p", "e"},
                                                     b \in {"B", "a", "p", "P", "Z", "d", "c", "v", "b", "e", "H"}} \cup
  {<<Dv(<<"^">>, 6, "b"), Dv(<<>>, 0 - 1, "d"), Lit(32), Dv(<<>>, 0 - 1, "A"), Dv(<<"#">>, 0 - 1, "p"), Dv(<<>>, 0 - 1, "B")>>,
   <<Dv(<<>>, 0 - 1, "v"), Lit(32), Dv(<<>>, 0 - 1, "b"), Lit(32), Dv(<<>>, 3, "d"), Dv(<<>>, 0 - 1, "e")>>} \cup
  {<<Trailing>>, <<Lit(97), Trailing>>, <<Dv(<<>>, 0 - 1, "Y"), Trailing>>, <<>>, <<Lit(233), Lit(128512)>>,
   <<[flags |-> <<>>, width |-> 0 - 1, ch |-> 233]>>,              \* %e-acute : an unknown non-ASCII directive is echoed
   <<[flags |-> <<>>, width |-> 0 - 1, ch |-> 128512], Lit(120)>>}

\* which stamps get the full directive table
FullStamps == {T(2016, 2, 16, 10, 0, 0, 5000000, 3600), T(2021, 1, 3, 0, 7, 9, 1000, 0 - 43200), T(2020, 12, 31, 13, 0, 0, 1, 20700),
               T(1, 1, 1, 12, 0, 0, 0, 0), T(9999, 12, 31, 23, 59, 59, 123456789, 50400)}
PlainFormats == {f \in Formats : \A i \in 1..Len(f) : "ch" \in DOMAIN f[i] => (f[i].flags = <<>> /\ f[i].width < 0)}

VARIABLE c
Init == c \in {[sd |-> "seed", t |-> t] : t \in Stamps}
Next == c.sd = "seed" /\ \E f \in (IF c.t \in FullStamps \/ Wide THEN Formats ELSE PlainFormats) : c' = [sd |-> "case", t |-> c.t, f |-> f]
Spec == Init /\ [][Next]_c
IsCase == c.sd = "case"

(* ---- calendar laws (independent of the `time` crate) ---- *)
ASSUME DaysFromCivil(1970, 1, 1) = 0 /\ (DaysFromCivil(1970, 1, 1) + 4) % 7 = 4        \* a Thursday
ASSUME DaysFromCivil(2000, 3, 1) - DaysFromCivil(2000, 2, 28) = 2                       \* 2000-02-29 exists
ASSUME DaysFromCivil(1900, 3, 1) - DaysFromCivil(1900, 2, 28) = 1                       \* 1900-02-29 does not
ASSUME \A z \in (0 - 800)..800 : LET cv == CivilFromDays(z * 997) IN DaysFromCivil(cv.y, cv.m, cv.d) = z * 997   \* CivilRoundTrip (sampled over +-2000 years)
ASSUME \A z \in 10950..11700 : LET cv == CivilFromDays(z) IN DaysFromCivil(cv.y, cv.m, cv.d) = z                  \* ... and every day around 2000
ASSUME \A y \in 1990..2045 : LET t == [y |-> y, mo |-> 1, d |-> 4] IN IsoWeekDate(t) = [y |-> y, w |-> 1]        \* 4 January is in week 1

Laws ==
  /\ LET t == c.t IN
       /\ Parse(PrintTs(t)) = t                                                   \* ParsePrintRoundTrip
       /\ IsoWeekDate(t).w \in 1..53 /\ WeekU(t) \in 0..53 /\ WeekW(t) \in 0..53
       /\ Ordinal(t) \in 1..YearDays(t.y)
       /\ CivilFromDays(Days(t)) = [y |-> t.y, m |-> t.mo, d |-> t.d]
  /\ IsCase =>
       \* FractionDigitsAreLeading / UnknownDirectiveEchoed are part of Strftime; here: plain %N is the zero-padded nanosecond field
       (c.f = <<Dv(<<>>, 0 - 1, "N")>> => Strftime(c.t, c.f) = ValD(PadLeft(NatCodes(c.t.ns), 9, 48)))

Record == [p |-> "C17", kind |-> "date", ts |-> PrintTs(c.t), alt |-> IF c.t.ns = 0 /\ c.t.y >= 1000 THEN Spellings(c.t) ELSE <<>>,
           fmt |-> FormatSrc(c.f), expect |-> IF c.f = <<>> THEN [any |-> TRUE] ELSE Strftime(c.t, c.f), nt |-> (Len(c.f) > 0)]
Emit == (EmitAll /\ IsCase) => PrintT(<<"REPLAY", ToJson(Record)>>)
=============================================================================
