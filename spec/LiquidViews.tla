----------------------------- MODULE LiquidViews -----------------------------
(***************************************************************************)
(* The observation table of a datum (crates/core/src/model/value: view.rs, *)
(* values.rs, cow.rs, ser.rs; scalar/ser.rs; object/ser.rs; derive crate): *)
(* everything a template or a plugin can ask a value, independent of the   *)
(* Rust type that carries it.  Every view of the same datum - owned,       *)
(* borrowed, converted through serde, a derived struct - must present      *)
(* exactly this table.                                                     *)
(***************************************************************************)
EXTENDS LiquidValues

TypeName(v) == CASE v.k = "int" -> "whole number" [] v.k = "float" -> "fractional number" [] v.k = "bool" -> "boolean"
                 [] v.k = "str" -> "string" [] v.k = "nil" -> "nil" [] v.k = "arr" -> "array" [] v.k = "obj" -> "object"
IsDefault(v) == CASE v.k = "nil" -> TRUE [] v.k = "bool" -> ~v.b [] v.k = "str" -> v.s = "" [] v.k = "arr" -> v.a = <<>>
                  [] v.k = "obj" -> DOMAIN v.o = {} [] OTHER -> FALSE
RECURSIVE MultiKey(_)
MultiKey(v) == CASE v.k = "obj" -> Cardinality(DOMAIN v.o) > 1 \/ \E q \in DOMAIN v.o : MultiKey(v.o[q])
                 [] v.k = "arr" -> \E i \in 1..Len(v.a) : MultiKey(v.a[i])
                 [] OTHER -> FALSE
SizeOf(v) == CASE v.k = "arr" -> Len(v.a) [] v.k = "obj" -> Cardinality(DOMAIN v.o) [] OTHER -> 0 - 1

\* the table; `render` is left out for data that print a multi-key object (iteration order is unspecified)
Obs(v, probes) ==
  [type_name |-> TypeName(v),
   render    |-> IF MultiKey(v) THEN [any |-> TRUE] ELSE [s |-> ToStr(v)],
   truthy    |-> Truthy(v), default |-> IsDefault(v), empty |-> IsEmptyV(v), blank |-> IsBlankV(v),
   is_nil    |-> v.k = "nil", is_scalar |-> IsScalar(v), is_array |-> v.k = "arr", is_object |-> v.k = "obj",
   size      |-> SizeOf(v),
   eq        |-> [i \in 1..Len(probes) |-> ValueEq(v, probes[i])]]
=============================================================================
