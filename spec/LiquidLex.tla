----------------------------- MODULE LiquidLex ------------------------------
(***************************************************************************)
(* The inner grammar of tags and output expressions, transcribed from      *)
(* crates/core/src/parser/grammar.pest as the PEG it is: ordered choice,   *)
(* greedy repetition without backtracking into it, atomic / compound-      *)
(* atomic / non-atomic rules (implicit whitespace only in the latter).     *)
(*                                                                         *)
(* Every rule is an operator  Rule(t, p)  on a text t (a TLC string) and a *)
(* position p (1-based) that returns a record with  e = the position after *)
(* the match, or e = 0 if the rule does not match at p, plus what the      *)
(* parser builds from the match (parser.rs parse_literal /                 *)
(* parse_variable_pair / parse_value / parse_filter_chain).                *)
(*                                                                         *)
(* pest consumes implicit whitespace after an element that precedes an     *)
(* optional or repeated part even when that part matches nothing, so the   *)
(* spans it reports may include trailing blanks (TagToken::as_str trims).  *)
(* Here a match ends before trailing blanks and blanks are skipped before  *)
(* the next element: the accepted language and the trimmed token text are  *)
(* the same.                                                               *)
(***************************************************************************)
EXTENDS Integers, Sequences, FiniteSets, TLC, LiquidValues

Ch(t, p) == IF p >= 1 /\ p <= Len(t) THEN SubSeq(t, p, p) ELSE ""
StartsWith(t, p, s) == p + Len(s) - 1 <= Len(t) /\ SubSeq(t, p, p + Len(s) - 1) = s

Lower == {"a","b","c","d","e","f","g","h","i","j","k","l","m","n","o","p","q","r","s","t","u","v","w","x","y","z"}
Upper == {"A","B","C","D","E","F","G","H","I","J","K","L","M","N","O","P","Q","R","S","T","U","V","W","X","Y","Z"}
Digit == {"0","1","2","3","4","5","6","7","8","9"}
WS    == {" ", "\t", "\n", "\r"}

Fail == [e |-> 0]
Ok(r) == r.e # 0

RECURSIVE SkipWS(_, _)
SkipWS(t, p) == IF Ch(t, p) \in WS THEN SkipWS(t, p + 1) ELSE p

(* ------------------------------ Identifier ---------------------------- *)
\* NON_WHITESPACE_CONTROL_HYPHEN = !"-}}" ~ !"-%}" ~ "-"
HyphenOk(t, p) == Ch(t, p) = "-" /\ ~StartsWith(t, p, "-}}") /\ ~StartsWith(t, p, "-%}")
IdStart(t, p) == Ch(t, p) \in Lower \cup Upper \cup {"_"} \/ HyphenOk(t, p)
IdCont(t, p)  == Ch(t, p) \in Lower \cup Upper \cup Digit \cup {"_"} \/ HyphenOk(t, p)
RECURSIVE IdEnd(_, _)
IdEnd(t, p) == IF IdCont(t, p) THEN IdEnd(t, p + 1) ELSE p
\* Identifier = @{ (ALPHA | "_" | HYPHEN) ~ (ALNUM | "_" | HYPHEN)* }
Identifier(t, p) == IF IdStart(t, p) THEN [e |-> IdEnd(t, p + 1), s |-> SubSeq(t, p, IdEnd(t, p + 1) - 1)] ELSE Fail

(* ------------------------------- Literal ------------------------------ *)
RECURSIVE DigitsEnd(_, _)
DigitsEnd(t, p) == IF Ch(t, p) \in Digit THEN DigitsEnd(t, p + 1) ELSE p
SignSkip(t, p) == IF Ch(t, p) \in {"+", "-"} THEN p + 1 ELSE p
RECURSIVE FindCh(_, _, _)
FindCh(t, p, c) == IF p > Len(t) THEN 0 ELSE IF Ch(t, p) = c THEN p ELSE FindCh(t, p + 1, c)

\* first alternative of an ordered list of keywords that is a prefix of the rest (no word boundary is required!)
RECURSIVE KwFrom(_, _, _, _)
KwFrom(t, p, ws, i) == IF i > Len(ws) THEN 0 ELSE IF StartsWith(t, p, ws[i]) THEN p + Len(ws[i]) ELSE KwFrom(t, p, ws, i + 1)
Kw(t, p, ws) == KwFrom(t, p, ws, 1)

StringEnd(t, p) ==
  IF Ch(t, p) \in {"'", "\""} THEN LET q == FindCh(t, p + 1, Ch(t, p)) IN IF q = 0 THEN 0 ELSE q + 1 ELSE 0
FloatEnd(t, p) ==
  LET a == SignSkip(t, p)  b == DigitsEnd(t, a) IN
  IF b = a \/ Ch(t, b) # "." THEN 0
  ELSE LET c == DigitsEnd(t, b + 1) IN IF c = b + 1 THEN 0 ELSE c
IntEnd(t, p) == LET a == SignSkip(t, p)  b == DigitsEnd(t, a) IN IF b = a THEN 0 ELSE b

\* the value a literal denotes (parse_literal).  Integers of more than 9 digits are outside what TLC computes with: they are
\* flagged `big`; the generators use either short integers or one 20-digit integer, which is out of the 64-bit range.
RECURSIVE Pow10(_)
Pow10(n) == IF n = 0 THEN 1 ELSE 10 * Pow10(n - 1)
IntValue(s) ==
  LET neg == Ch(s, 1) = "-"
      body == IF Ch(s, 1) \in {"+", "-"} THEN SubSeq(s, 2, Len(s)) ELSE s
      n == ParseNat(body, 1, 0)
  IN IntV(IF neg THEN 0 - n ELSE n)
FloatValue(s) ==
  LET neg == Ch(s, 1) = "-"
      body == IF Ch(s, 1) \in {"+", "-"} THEN SubSeq(s, 2, Len(s)) ELSE s
      dot == FindCh(body, 1, ".")
      whole == SubSeq(body, 1, dot - 1)
      frac == SubSeq(body, dot + 1, Len(body))
      den == Pow10(Len(frac))
      num == ParseNat(whole, 1, 0) * den + ParseNat(frac, 1, 0)
  IN FloatV(IF neg THEN 0 - num ELSE num, den)

\* Literal = { Nil | Empty | Blank | String | Float | Integer | Boolean }   (ordered)
Literal(t, p) ==
  LET nil == Kw(t, p, <<"nil", "null">>)  emp == Kw(t, p, <<"empty">>)  bla == Kw(t, p, <<"blank">>)
      str == StringEnd(t, p)  flo == FloatEnd(t, p)  int == IntEnd(t, p)  boo == Kw(t, p, <<"true", "false">>)
  IN CASE nil # 0 -> [e |-> nil, v |-> NilV, big |-> FALSE]
       [] emp # 0 -> [e |-> emp, v |-> StateV("empty"), big |-> FALSE]
       [] bla # 0 -> [e |-> bla, v |-> StateV("blank"), big |-> FALSE]
       [] str # 0 -> [e |-> str, v |-> StrV(SubSeq(t, p + 1, str - 2)), big |-> FALSE]
       [] flo # 0 -> [e |-> flo, v |-> IF flo - p > 9 THEN NilV ELSE FloatValue(SubSeq(t, p, flo - 1)), big |-> FALSE]
       [] int # 0 -> (IF int - p > 9 THEN [e |-> int, v |-> NilV, big |-> TRUE]
                      ELSE [e |-> int, v |-> IntValue(SubSeq(t, p, int - 1)), big |-> FALSE])
       [] boo # 0 -> [e |-> boo, v |-> BoolV(StartsWith(t, p, "true")), big |-> FALSE]
       [] OTHER   -> Fail

(* -------------------------- Value and Variable ------------------------ *)
\* expressions as LiquidInterp has them
XLit(v)      == [e |-> "lit", v |-> v]
XVar(n, idx) == [e |-> "var", name |-> n, idx |-> idx]

\* Variable = ${ Identifier ~ ( "." ~ Identifier | "[" ~ WS* ~ Value ~ WS* ~ "]" )* }      no implicit whitespace
\* Value    = { Literal | Variable }
RECURSIVE Value(_, _), VarTail(_, _, _, _, _)
VarTail(t, q, name, idx, big) ==
  IF Ch(t, q) = "." /\ Ok(Identifier(t, q + 1))
  THEN LET i == Identifier(t, q + 1) IN VarTail(t, i.e, name, Append(idx, XLit(StrV(i.s))), big)
  ELSE IF Ch(t, q) = "["
  THEN LET v == Value(t, SkipWS(t, q + 1)) IN
       IF Ok(v) /\ Ch(t, SkipWS(t, v.e)) = "]"
       THEN VarTail(t, SkipWS(t, v.e) + 1, name, Append(idx, v.x), big \/ v.big)
       ELSE [e |-> q, x |-> XVar(name, idx), big |-> big, isvar |-> TRUE]          \* the repetition ends before "["
  ELSE [e |-> q, x |-> XVar(name, idx), big |-> big, isvar |-> TRUE]
Variable(t, p) == LET i == Identifier(t, p) IN IF Ok(i) THEN VarTail(t, i.e, i.s, <<>>, FALSE) ELSE Fail
Value(t, p) ==
  LET l == Literal(t, p) IN
  IF Ok(l) THEN [e |-> l.e, x |-> XLit(l.v), big |-> l.big, isvar |-> FALSE] ELSE Variable(t, p)

(* ------------------------------- filters ------------------------------ *)
\* FilterArgument = _{ Identifier ~ ":" ~ Value  |  Value }     (keyword first; both in a non-atomic context)
FilterArgument(t, p) ==
  LET i == Identifier(t, p) IN
  LET kq == IF Ok(i) /\ Ch(t, SkipWS(t, i.e)) = ":" THEN Value(t, SkipWS(t, SkipWS(t, i.e) + 1)) ELSE Fail IN
  IF Ok(kq) THEN [e |-> kq.e, kw |-> TRUE, big |-> kq.big]
  ELSE LET v == Value(t, p) IN IF Ok(v) THEN [e |-> v.e, kw |-> FALSE, big |-> v.big] ELSE Fail

\* ("," ~ FilterArgument)*
RECURSIVE MoreArgs(_, _, _, _, _)
MoreArgs(t, q, npos, nkw, big) ==
  LET c == SkipWS(t, q) IN
  LET a == IF Ch(t, c) = "," THEN FilterArgument(t, SkipWS(t, c + 1)) ELSE Fail IN
  IF Ok(a) THEN MoreArgs(t, a.e, npos + (IF a.kw THEN 0 ELSE 1), nkw + (IF a.kw THEN 1 ELSE 0), big \/ a.big)
  ELSE [e |-> q, npos |-> npos, nkw |-> nkw, big |-> big]

\* Filter = { Identifier ~ (":" ~ FilterArgument ~ ("," ~ FilterArgument)*)? }
Filter(t, p) ==
  LET i == Identifier(t, p) IN
  IF ~Ok(i) THEN Fail
  ELSE LET c == SkipWS(t, i.e) IN
       LET a == IF Ch(t, c) = ":" THEN FilterArgument(t, SkipWS(t, c + 1)) ELSE Fail IN
       IF Ok(a) THEN LET m == MoreArgs(t, a.e, IF a.kw THEN 0 ELSE 1, IF a.kw THEN 1 ELSE 0, a.big)
                     IN [e |-> m.e, name |-> i.s, npos |-> m.npos, nkw |-> m.nkw, big |-> m.big]
       ELSE [e |-> i.e, name |-> i.s, npos |-> 0, nkw |-> 0, big |-> FALSE]          \* the optional part is absent

\* FilterChain = { Value ~ ("|" ~ Filter)* }
RECURSIVE MoreFilters(_, _, _, _)
MoreFilters(t, q, fs, big) ==
  LET c == SkipWS(t, q) IN
  LET f == IF Ch(t, c) = "|" THEN Filter(t, SkipWS(t, c + 1)) ELSE Fail IN
  IF Ok(f) THEN MoreFilters(t, f.e, Append(fs, [name |-> f.name, npos |-> f.npos, nkw |-> f.nkw]), big \/ f.big)
  ELSE [e |-> q, fs |-> fs, big |-> big]
FilterChain(t, p) ==
  LET v == Value(t, p) IN
  IF ~Ok(v) THEN Fail
  ELSE LET m == MoreFilters(t, v.e, <<>>, v.big)
       IN [e |-> m.e, k |-> "chain", x |-> v.x, isvar |-> v.isvar, fs |-> m.fs, big |-> m.big, s |-> SubSeq(t, p, m.e - 1)]

\* Range = { "(" ~ Value ~ ".." ~ Value ~ ")" }
Range(t, p) ==
  IF Ch(t, p) # "(" THEN Fail
  ELSE LET a == Value(t, SkipWS(t, p + 1)) IN
       IF ~Ok(a) \/ ~StartsWith(t, SkipWS(t, a.e), "..") THEN Fail
       ELSE LET b == Value(t, SkipWS(t, SkipWS(t, a.e) + 2)) IN
            IF ~Ok(b) \/ Ch(t, SkipWS(t, b.e)) # ")" THEN Fail
            ELSE [e |-> SkipWS(t, b.e) + 1, k |-> "range", lo |-> a.x, hi |-> b.x, big |-> a.big \/ b.big,
                  s |-> SubSeq(t, p, SkipWS(t, b.e))]

\* TagToken = _{ Range | FilterChain | DoubleCharSymbol | SingleCharSymbol }
Symbol(t, p) ==
  LET d == Kw(t, p, <<"==", "!=", "<>", ">=", "<=">>)  s == Kw(t, p, <<">", "<", "=", ",", ":">>) IN
  IF d # 0 THEN [e |-> d, k |-> "sym", s |-> SubSeq(t, p, d - 1), big |-> FALSE]
  ELSE IF s # 0 THEN [e |-> s, k |-> "sym", s |-> SubSeq(t, p, s - 1), big |-> FALSE] ELSE Fail
TagToken(t, p) ==
  LET r == Range(t, p) IN IF Ok(r) THEN r ELSE
  LET c == FilterChain(t, p) IN IF Ok(c) THEN c ELSE Symbol(t, p)

\* TagToken*   (with implicit whitespace between the repetitions)
RECURSIVE TagTokens(_, _, _)
TagTokens(t, q, acc) ==
  LET k == TagToken(t, SkipWS(t, q)) IN
  IF Ok(k) THEN TagTokens(t, k.e, Append(acc, k)) ELSE [e |-> q, toks |-> acc]

(* ---------------------------- the two elements ------------------------ *)
\* Tag = { ("{%-" | "{%") ~ WS* ~ !{Identifier ~ TagToken*} ~ WS* ~ ("-%}" | "%}") }  starting at p (no leading-blank form)
Tag(t, p) ==
  LET a == IF StartsWith(t, p, "{%-") THEN p + 3 ELSE IF StartsWith(t, p, "{%") THEN p + 2 ELSE 0 IN
  IF a = 0 THEN Fail
  ELSE LET n == Identifier(t, SkipWS(t, a)) IN
       IF ~Ok(n) THEN Fail
       ELSE LET ts == TagTokens(t, n.e, <<>>)
                z == SkipWS(t, ts.e)
            IN IF StartsWith(t, z, "-%}") THEN [e |-> z + 3, name |-> n.s, toks |-> ts.toks]
               ELSE IF StartsWith(t, z, "%}") THEN [e |-> z + 2, name |-> n.s, toks |-> ts.toks]
               ELSE Fail
\* Expression = { ("{{-" | "{{") ~ WS* ~ !{FilterChain} ~ WS* ~ ("-}}" | "}}") }
Expression(t, p) ==
  LET a == IF StartsWith(t, p, "{{-") THEN p + 3 ELSE IF StartsWith(t, p, "{{") THEN p + 2 ELSE 0 IN
  IF a = 0 THEN Fail
  ELSE LET c == FilterChain(t, SkipWS(t, a)) IN
       IF ~Ok(c) THEN Fail
       ELSE LET z == SkipWS(t, c.e) IN
            IF StartsWith(t, z, "-}}") THEN [e |-> z + 3, chain |-> c]
            ELSE IF StartsWith(t, z, "}}") THEN [e |-> z + 2, chain |-> c]
            ELSE Fail
=============================================================================
