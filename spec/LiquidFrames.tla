---------------------------- MODULE LiquidFrames ----------------------------
(***************************************************************************)
(* The scope frames of liquid-core at the grain of one delegation step     *)
(* (crates/core/src/runtime/stack.rs, runtime.rs RuntimeBuilder::build).   *)
(*                                                                         *)
(* LiquidRuntime describes a *stack* of layers and whole calls; this       *)
(* module describes what the code really has - a *tree* of frames, each    *)
(* holding a reference to its parent - and one action per frame visited by *)
(* a call: try_get/get ("Ask"), set_global, set_index, get_index.  One     *)
(* action = one hook event of cfg(liquid_verif) (verif_trace.rs), so       *)
(* Trace_Frames can replay recorded renders through these very actions.    *)
(*                                                                         *)
(* The data of a plain / sandboxed frame is borrowed and immutable; it is  *)
(* not logged.  It is modelled lazily: the first Ask for a key decides     *)
(* whether the frame defines it (yes / no) and every later Ask must agree. *)
(* Global and index frames start empty and grow only by their own stores.  *)
(*                                                                         *)
(* Completed calls are tied back to LiquidRuntime's declarative            *)
(* definitions (topmost visible layer that defines the name; nearest       *)
(* global; the index layer) by the invariants at the end.                  *)
(***************************************************************************)
EXTENDS Naturals, Sequences, FiniteSets, TLC

CONSTANTS FKeys        \* names

VARIABLES fr,          \* frame id -> [kind, parent]; parent 0 = none
          yes,         \* frame id -> names the frame is known to define
          no,          \* frame id -> names the frame is known not to define
          pend,        \* the call in flight: which frame is consulted next
          done         \* the last completed call

fvars == <<fr, yes, no, pend, done>>

R == INSTANCE LiquidRuntime WITH Keys <- FKeys, Vals <- {1}

Kinds == {"core", "index", "plain", "global", "sandbox"}
Idle  == [op |-> "none", start |-> 0, at |-> 0, key |-> ""]
NoCall == [op |-> "none", start |-> 0, key |-> "", at |-> 0]

Ids == DOMAIN fr
Put(f, k, v) == [q \in DOMAIN f \cup {k} |-> IF q = k THEN v ELSE f[q]]

FInit == /\ fr = <<>> /\ yes = <<>> /\ no = <<>> /\ pend = Idle /\ done = NoCall

(* ------------------------------ frames -------------------------------- *)
\* What may sit on what.  RuntimeBuilder::build makes core / index / plain(caller data) / global and hands out only the
\* global; IndexFrame is crate-private, so nothing else is ever built on the three base frames.
IsBase(i) == \/ fr[i].kind \in {"core", "index"}
             \/ fr[i].kind = "plain" /\ fr[fr[i].parent].kind = "index"
ShapeOk(kind, parent) ==
  IF parent = 0 THEN kind = "core"
  ELSE /\ parent \in Ids /\ kind # "core"
       /\ (kind = "index" <=> fr[parent].kind = "core")
       /\ (IsBase(parent) => \A i \in Ids : fr[i].parent # parent)      \* the base is a chain: each builder makes its own
       /\ (fr[parent].kind = "index" => kind = "plain")
       /\ (fr[parent].kind = "plain" /\ fr[fr[parent].parent].kind = "index" => kind = "global")

\* closed = the frame's names are known exactly (owned data, or borrowed data whose keys were logged at construction)
NewFrameWith(id, kind, parent, closed, keys) ==
  /\ pend = Idle                      \* frames are built between calls, never inside a delegation chain
  /\ id \notin Ids /\ id # 0
  /\ ShapeOk(kind, parent)
  /\ kind \in {"core", "index", "global"} => closed /\ keys = {}       \* owned maps start empty
  /\ fr' = Put(fr, id, [kind |-> kind, parent |-> parent, closed |-> closed])
  /\ yes' = Put(yes, id, keys) /\ no' = Put(no, id, {})
  /\ UNCHANGED <<pend, done>>
NewFrame(id, kind, parent) == NewFrameWith(id, kind, parent, kind \in {"core", "index", "global"}, {})

(* ------------------------------- calls -------------------------------- *)
\* a call starts at any frame (pend idle) or continues at exactly the frame and key it was delegated to
Continues(op, id, key) ==
  /\ id \in Ids
  /\ \/ pend = Idle
     \/ pend.op = op /\ pend.at = id /\ pend.key = key
StartOf(id) == IF pend = Idle THEN id ELSE pend.start
Finish(op, id, key, at) ==
  /\ pend' = Idle
  /\ done' = [op |-> op, start |-> StartOf(id), key |-> key, at |-> at]
Delegate(op, id, key) ==
  /\ fr[id].parent # 0                 \* the core frame has nobody to ask
  /\ pend' = [op |-> op, start |-> StartOf(id), at |-> fr[id].parent, key |-> key]
  /\ UNCHANGED done

\* try_get / get: "answer iff contains_key(first path element), else ask the parent"; a sandbox and the core never ask
AskStep(id, key, h) ==
  /\ Continues("Ask", id, key)
  /\ LET k == fr[id].kind IN
     /\ CASE k = "core" -> h = FALSE
          [] fr[id].closed -> h = (key \in yes[id])                      \* exactly what was stored here / logged
          [] OTHER -> (key \in yes[id] => h) /\ (key \in no[id] => ~h)    \* borrowed data does not change
     /\ IF ~fr[id].closed
        THEN /\ yes' = IF h THEN Put(yes, id, yes[id] \cup {key}) ELSE yes
             /\ no'  = IF h THEN no ELSE Put(no, id, no[id] \cup {key})
        ELSE UNCHANGED <<yes, no>>
     /\ IF h THEN Finish("Ask", id, key, id)
        ELSE IF k \in {"sandbox", "core"} THEN Finish("Ask", id, key, 0)
        ELSE Delegate("Ask", id, key)
  /\ UNCHANGED fr

\* set_global: every frame forwards, a global frame stores
SetGlobalStep(id, key, stored) ==
  /\ Continues("SetGlobal", id, key)
  /\ stored = (fr[id].kind = "global")
  /\ IF stored THEN /\ yes' = Put(yes, id, yes[id] \cup {key}) /\ Finish("SetGlobal", id, key, id)
               ELSE /\ fr[id].kind # "core"      \* unreachable!("Must be masked by a global frame")
                    /\ Delegate("SetGlobal", id, key) /\ UNCHANGED yes
  /\ UNCHANGED <<fr, no>>

\* set_index: every frame forwards (a sandbox too: counters are shared), the index frame stores
SetIndexStep(id, key, stored) ==
  /\ Continues("SetIndex", id, key)
  /\ stored = (fr[id].kind = "index")
  /\ IF stored THEN /\ yes' = Put(yes, id, yes[id] \cup {key}) /\ Finish("SetIndex", id, key, id)
               ELSE /\ fr[id].kind # "core"
                    /\ Delegate("SetIndex", id, key) /\ UNCHANGED yes
  /\ UNCHANGED <<fr, no>>

\* get_index: every frame forwards, the index frame answers from its own map (core would answer None; it is masked)
GetIndexStep(id, key, answered, h) ==
  /\ Continues("GetIndex", id, key)
  /\ answered = (fr[id].kind = "index")
  /\ IF answered THEN /\ h = (key \in yes[id]) /\ Finish("GetIndex", id, key, id)
                 ELSE /\ fr[id].kind # "core" /\ Delegate("GetIndex", id, key)
  /\ UNCHANGED <<fr, yes, no>>

(* --------------- the declarative reading (LiquidRuntime) -------------- *)
\* the stack a frame sees: its ancestors, root first; the maps carry only what is known to be defined
RECURSIVE PathTo(_)
PathTo(id) == IF id = 0 THEN <<>> ELSE Append(PathTo(fr[id].parent), id)
StackOf(id) == LET p == PathTo(id) IN [i \in 1..Len(p) |-> R!Layer(fr[p[i]].kind, [k \in yes[p[i]] |-> R!Int(1)])]
MaxOf(S) == CHOOSE i \in S : \A j \in S : j <= i

\* the frame LiquidRuntime's declarative lookup names: topmost visible layer defining the key, 0 if none
DeclAnswerer(id, key) ==
  LET s == StackOf(id)  D == R!Defines(s, key) IN IF D = {} THEN 0 ELSE PathTo(id)[MaxOf(D)]
HasKind(id, kind) == \E i \in 1..Len(PathTo(id)) : fr[PathTo(id)[i]].kind = kind

\* every completed call ended where the declarative model says
DoneMatchesDeclarative ==
  done.op # "none" =>
    CASE done.op = "Ask"       -> done.at = DeclAnswerer(done.start, done.key)
      [] done.op = "SetGlobal" -> done.at = PathTo(done.start)[R!DeclGlobalTarget(StackOf(done.start))]
      [] OTHER                 -> done.at = PathTo(done.start)[R!IndexTarget(StackOf(done.start))]

\* a frame's knowledge is consistent; the tree is well-founded with exactly the builder's base under every frame
KnowledgeConsistent == \A i \in Ids : yes[i] \cap no[i] = {} /\ (fr[i].kind \in {"core"} => yes[i] = {})
TreeShape == \A i \in Ids :
  /\ (fr[i].parent = 0) = (fr[i].kind = "core")
  /\ fr[i].parent # 0 => fr[i].parent \in Ids
  /\ fr[i].kind # "core" => HasKind(i, "index") \/ fr[i].kind = "index"
\* a chain in flight is on the path from its start to the root, below everything already consulted
PendOnPath == pend # Idle =>
  /\ pend.start \in Ids /\ pend.at \in Ids
  /\ \E i \in 1..Len(PathTo(pend.start)) : PathTo(pend.start)[i] = pend.at
  /\ pend.op = "Ask" => \A i \in 1..Len(PathTo(pend.start)) :
        (\E j \in 1..i-1 : PathTo(pend.start)[j] = pend.at) =>
           /\ fr[PathTo(pend.start)[i]].kind # "sandbox"
           /\ pend.key \notin yes[PathTo(pend.start)[i]]

FInv == KnowledgeConsistent /\ TreeShape /\ PendOnPath /\ DoneMatchesDeclarative
=============================================================================
