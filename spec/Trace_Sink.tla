----------------------------- MODULE Trace_Sink -----------------------------
(* Trace validation for C10: sink events recorded by the harness from real *)
(* render_to calls (a sink wrapper that fails, or short-writes then fails, *)
(* at physical call k) must be a behaviour of LiquidSink.                  *)
EXTENDS LiquidSink, Json, IOUtils, TLC

Rec == ndJsonDeserialize(IOEnv.TRACE)
VARIABLE l
tvars == <<sinkvars, l>>

Ev == Rec[l]
IsEvent(e) == l <= Len(Rec) /\ Rec[l].e = e /\ l' = l + 1

TraceInit == l = 1 /\ accepted = <<>> /\ failed = FALSE /\ calls = 0 /\ returned = "ok" /\ full = <<>> /\ ffok = TRUE

\* start of one render_to call: the fault-free output of this (template, data)
TReset == /\ IsEvent("Reset")
          /\ returned # "none"                        \* the previous call did return
          /\ accepted' = <<>> /\ failed' = FALSE /\ calls' = 0 /\ returned' = "none" /\ full' = Ev.full /\ ffok' = Ev.ffok

TWrite == /\ IsEvent("Write")
          /\ Ev.n = calls + 1                         \* no call went unrecorded
          /\ IF Ev.ok THEN SinkAccept(Ev.offered, Ev.took) ELSE SinkFail(Ev.offered)
          /\ AcceptedIsPrefix'                        \* checked at every step

TReturn == /\ IsEvent("Return")
           /\ SinkReturn(Ev.ok)

TEnd == IsEvent("End") /\ returned # "none" /\ UNCHANGED sinkvars

TraceNext == TReset \/ TWrite \/ TReturn \/ TEnd
TraceSpec == TraceInit /\ [][TraceNext]_tvars

TraceAccepted ==
  LET d == TLCGet("stats").diameter IN
  IF d - 1 = Len(Rec) THEN TRUE
  ELSE Print(<<"TRACE-REJECTED at event", d, IF d <= Len(Rec) THEN Rec[d] ELSE "end">>, FALSE)
=============================================================================
