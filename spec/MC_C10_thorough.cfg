SPECIFICATION Spec
CONSTANTS
  MaxSeq = 3
  EmitAll = TRUE
INVARIANTS Inv Emit
PROPERTIES NoWriteAfterFailure
CHECK_DEADLOCK FALSE
