SPECIFICATION Spec
CONSTANTS
  MaxRun = 3
  MaxPad = 3
  WideCores = TRUE
  EmitAll = TRUE
INVARIANTS Inv Emit
CHECK_DEADLOCK FALSE
