---------------------------- MODULE Trace_Threads ----------------------------
(* Trace validation for C20: events recorded from real threads sharing one  *)
(* Parser (lazy partial store) and its Templates.  The event order is the   *)
(* order in which the recorder's own mutex was taken: Call before the call  *)
(* starts, Return after it ends, Miss from inside the store's critical      *)
(* section (the store calls the source while holding its mutex).  Reuses    *)
(* Decl / MissEffect of LiquidPartials.                                     *)
EXTENDS LiquidPartialsBase, Json, IOUtils, Sequences

Rec == ndJsonDeserialize(IOEnv.TRACE)
VARIABLES l, tcache, incall, pol
tvars == <<l, tcache, incall, pol>>
Ev == Rec[l]
IsEvent(e) == l <= Len(Rec) /\ Rec[l].e = e /\ l' = l + 1

TraceInit == l = 1 /\ tcache = [n \in {} |-> "-"] /\ incall = [t \in Threads |-> FALSE] /\ pol = "lazy"

\* a fresh parser (empty cache); every call of the previous run has returned
TReset == /\ IsEvent("Reset")
          /\ \A t \in Threads : ~incall[t]
          /\ tcache' = [n \in {} |-> "-"] /\ pol' = Ev.policy /\ UNCHANGED incall

TCall == /\ IsEvent("Call") /\ Ev.t \in Threads /\ ~incall[Ev.t]
         /\ incall' = [incall EXCEPT ![Ev.t] = TRUE] /\ UNCHANGED <<tcache, pol>>

\* a miss observed inside the store's critical section (lazy store); the on-demand store has neither cache nor lock:
\* every look-up reaches the source, from any number of threads at once
TMiss == /\ IsEvent("Miss")
         /\ Ev.name \in Names
         /\ incall[Ev.t]                          \* only a thread inside a call touches the store
         /\ Ev.found = (Ev.name \notin Absent)    \* the source is truthful
         /\ IF pol = "lazy"
            THEN /\ Ev.inside = 1                         \* MutualExclusion: nobody else is in there
                 /\ Ev.name \notin DOMAIN tcache          \* AtMostOneCompilePerName: a cached name never misses again
                 /\ tcache' = MissEffect(tcache, Ev.name)
            ELSE UNCHANGED tcache
         /\ UNCHANGED <<incall, pol>>

\* every call returns exactly what it returns when executed alone
TReturn == /\ IsEvent("Return") /\ incall[Ev.t]
           /\ Ev.res = Ev.alone
           /\ incall' = [incall EXCEPT ![Ev.t] = FALSE] /\ UNCHANGED <<tcache, pol>>

TEnd == /\ IsEvent("End") /\ \A t \in Threads : ~incall[t]
        /\ UNCHANGED <<tcache, incall, pol>>

TraceNext == TReset \/ TCall \/ TMiss \/ TReturn \/ TEnd
TraceSpec == TraceInit /\ [][TraceNext]_tvars

CacheOK == \A n \in DOMAIN tcache : tcache[n] = Decl(n)

TraceAccepted ==
  LET d == TLCGet("stats").diameter IN
  IF d - 1 = Len(Rec) THEN TRUE
  ELSE Print(<<"TRACE-REJECTED at event", d, IF d <= Len(Rec) THEN Rec[d] ELSE "end">>, FALSE)
=============================================================================
