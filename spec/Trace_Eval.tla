----------------------------- MODULE Trace_Eval -----------------------------
(* Trace validation of recorded filter evaluations on random large inputs   *)
(* (C14): every event must satisfy the relation LiquidFiltersArr defines    *)
(* between input and result.  A call that panicked has no "out" the         *)
(* specification can explain.                                               *)
EXTENDS LiquidFiltersArr, Json, IOUtils

Rec == ndJsonDeserialize(IOEnv.TRACE)
VARIABLE l
Ev == Rec[l]

\* what the specification allows for filter f on array a
Explains(f, a, out) ==
  LET r == ApplyArr(f, a) IN
  IF "perm" \in DOMAIN r THEN out.k = "arr" /\ IsPermutation(out.a, a)
  ELSE IF "err" \in DOMAIN r THEN out.k = "error"
  ELSE out = r.val

TraceInit == l = 1
TEval == /\ l <= Len(Rec) /\ Ev.e = "Eval"
         /\ Explains(Ev.f, Ev.in, Ev.out)
         /\ l' = l + 1
TEnd == l <= Len(Rec) /\ Ev.e = "End" /\ l' = l + 1
TraceNext == TEval \/ TEnd
TraceSpec == TraceInit /\ [][TraceNext]_l

TraceAccepted ==
  LET d == TLCGet("stats").diameter IN
  IF d - 1 = Len(Rec) THEN TRUE
  ELSE Print(<<"TRACE-REJECTED at event", d, IF d <= Len(Rec) THEN Rec[d] ELSE "end">>, FALSE)
=============================================================================
