SPECIFICATION Spec
CONSTANTS
  MaxLen = 5
  MaxObjLen = 4
  EmitAll = TRUE
INVARIANTS Laws Emit
CHECK_DEADLOCK FALSE
