SPECIFICATION Spec
CONSTANTS
  MaxHist = 3
  EmitAll = TRUE
INVARIANTS Emit
CHECK_DEADLOCK FALSE
