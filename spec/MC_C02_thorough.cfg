SPECIFICATION Spec
CONSTANTS
  ArgPool2Small = FALSE
  EmitAll = TRUE
INVARIANTS Emit
CHECK_DEADLOCK FALSE
