SPECIFICATION Spec
CONSTANTS
  MaxArms = 3
  EmitAll = TRUE
  Families = {"pair", "chain", "case", "logic"}
INVARIANTS Inv Emit
CHECK_DEADLOCK FALSE
