------------------------------ MODULE MC_C12 ------------------------------
(* Bounded instance of LiquidViews for property C12: every value of a       *)
(* recursive generator, a family of struct instances for the derive macros, *)
(* integers across the i64 / u64 boundaries.                                *)
EXTENDS LiquidViews, Json
CONSTANTS Depth2Pool, EmitAll

Scalars == {NilV, BoolV(TRUE), BoolV(FALSE), IntV(0), IntV(7), IntV(0 - 1), FloatV(5, 2), FloatV(0 - 1, 4), StrV(""), StrV(" "), StrV("a"), StrV("10")}
Arrs(P) == {ArrV(<<>>)} \cup {ArrV(<<x>>) : x \in P} \cup {ArrV(<<x, y>>) : x \in P, y \in P}
Objs(P) == {ObjV(EmptyObj)} \cup {ObjV([q \in {kk} |-> x]) : kk \in {"a", "b"}, x \in P}
           \cup {ObjV([q \in {"a", "b"} |-> IF q = "a" THEN x ELSE y]) : x \in P, y \in P}
D1 == Scalars \cup Arrs(Scalars) \cup Objs(Scalars)
\* a representative slice of depth 1 feeds depth 2
Rep == {IntV(7), StrV("a"), NilV, ArrV(<<>>), ArrV(<<IntV(7), NilV>>), ObjV(EmptyObj), ObjV([q \in {"a"} |-> StrV("")]),
        ObjV([q \in {"a", "b"} |-> IF q = "a" THEN IntV(0) ELSE BoolV(FALSE)])}
D2 == IF Depth2Pool THEN Arrs(D1) \cup Objs(D1) ELSE Arrs(Rep) \cup Objs(Rep)
Values == D1 \cup D2
Probes == <<NilV, BoolV(TRUE), BoolV(FALSE), IntV(7), FloatV(5, 2), StrV(""), StrV("a"), ArrV(<<>>), ObjV(EmptyObj), StateV("empty"), StateV("blank"),
            ArrV(<<IntV(7), NilV>>), ObjV([q \in {"a"} |-> StrV("")])>>

\* struct family for the derive macros: field values of  S { i: i64, f: f64, b: bool, s: String, v: Vec<i64>, o: Option<i64>, inner: Inner { x: String, n: Option<bool> } }
StructInstances ==
  {[i |-> i, f |-> f, b |-> b, s |-> s, v |-> v, o |-> o, x |-> x, n |-> n] :
     i \in {0, 0 - 5, 123456789}, f \in {FloatV(5, 2), FloatV(0, 1)}, b \in BOOLEAN, s \in {"", "txt"}, v \in {<<>>, <<1, 2>>},
     o \in {NilV, IntV(9)}, x \in {"in"}, n \in {NilV, BoolV(FALSE)}}
StructAsValue(r) ==
  ObjV([q \in {"i", "f", "b", "s", "v", "o", "inner"} |->
     CASE q = "i" -> IntV(r.i) [] q = "f" -> r.f [] q = "b" -> BoolV(r.b) [] q = "s" -> StrV(r.s)
       [] q = "v" -> ArrV([j \in 1..Len(r.v) |-> IntV(r.v[j])]) [] q = "o" -> r.o
       [] q = "inner" -> ObjV([q2 \in {"x", "n"} |-> IF q2 = "x" THEN StrV(r.x) ELSE r.n])])
\* what a template prints for the struct's fields (no iteration over keys)
StructRender(r) == ToString(r.i) \o "|" \o ToStr(r.f) \o "|" \o ToStr(BoolV(r.b)) \o "|" \o r.s \o "|" \o ToStr(ArrV([j \in 1..Len(r.v) |-> IntV(r.v[j])]))
                   \o "|" \o ToStr(r.o) \o "|" \o r.x \o "|" \o ToStr(r.n) \o "|" \o ToString(Len(r.v)) \o "|7"

\* integers around the i64 / u64 boundaries as they appear in JSON / Rust data
IntTexts == {"0", "-1", "9223372036854775807", "9223372036854775808", "-9223372036854775808", "-9223372036854775809",
             "18446744073709551615", "18446744073709551616", "4611686018427387904", "12345678901234567890", "99999999999999999999999"}

\* dates and date-times are scalars too (2016-02-16 is day 16847)
DateObs(tn, text, probes) ==
  [type_name |-> tn, render |-> [s |-> text], truthy |-> TRUE, default |-> FALSE, empty |-> FALSE, blank |-> FALSE,
   is_nil |-> FALSE, is_scalar |-> TRUE, is_array |-> FALSE, is_object |-> FALSE, size |-> 0 - 1,
   eq |-> [i \in 1..Len(probes) |-> probes[i] = BoolV(TRUE)]]      \* any scalar equals `true` (Ruby truthiness)
DateCases ==
  {[sd |-> "value", special |-> TRUE, v |-> [k |-> "date", days |-> 16847], obs |-> DateObs("date", "2016-02-16", Probes)],
   [sd |-> "value", special |-> TRUE, v |-> [k |-> "datetime", inst |-> 1455616800, off |-> 3600],
    obs |-> DateObs("date time", "2016-02-16 11:00:00 +0100", Probes)]} \cup
  \* strings of white space beyond ASCII (ideographic space, no-break space, vertical tab, a mix), as code points: blank, not empty,
  \* truthy, equal to `blank` and to `true` only - through every view, the Rust String's own among them
  {[sd |-> "value", special |-> TRUE, v |-> [k |-> "str", s |-> cs],
    obs |-> [type_name |-> "string", render |-> [s |-> cs], truthy |-> TRUE, default |-> FALSE, empty |-> FALSE, blank |-> TRUE,
             is_nil |-> FALSE, is_scalar |-> TRUE, is_array |-> FALSE, is_object |-> FALSE, size |-> 0 - 1,
             eq |-> [i \in 1..Len(Probes) |-> Probes[i] \in {BoolV(TRUE), StateV("blank")}]]] :
     cs \in {<<12288>>, <<160>>, <<11>>, <<32, 12288, 9>>}} \cup
  \* sub-second values: the printed form keeps the fraction through every view and conversion
  {[sd |-> "value", special |-> TRUE, v |-> [k |-> "datetime", text |-> t], obs |-> DateObs("date time", t, Probes)] :
     t \in {"2016-02-16 11:00:00.000001 +0100", "2016-02-16 11:00:00.5 +0100", "2016-02-16 11:00:00.000000001 +0000", "2016-02-16 11:00:00.123456789 -0330"}}

VARIABLE c
Init == c \in {[sd |-> "vals"], [sd |-> "structs"], [sd |-> "ints"]}
Next == /\ c.sd \in {"vals", "structs", "ints"}
        /\ c' \in CASE c.sd = "vals" -> {[sd |-> "value", special |-> FALSE, v |-> v] : v \in Values} \cup DateCases
                    [] c.sd = "structs" -> {[sd |-> "struct", r |-> r] : r \in StructInstances}
                    [] c.sd = "ints" -> {[sd |-> "int", t |-> t] : t \in IntTexts}
Spec == Init /\ [][Next]_c

\* laws of the table itself
Laws ==
  /\ (c.sd = "value" /\ ~c.special) =>
       /\ ValueEq(c.v, c.v)                                               \* every generated value equals itself
       /\ IsEmptyV(c.v) => IsBlankV(c.v)                                   \* empty implies blank
       /\ IsDefault(c.v) => (IsBlankV(c.v) \/ c.v.k = "bool")
       /\ Truthy(c.v) = ~(c.v.k = "nil" \/ c.v = BoolV(FALSE))
  /\ c.sd = "struct" => Obs(StructAsValue(c.r), Probes).size = 7

Record ==
  CASE c.sd = "value" /\ c.special -> [p |-> "C12", kind |-> "views", v |-> c.v, probes |-> Probes, obs |-> c.obs, nt |-> TRUE]
    [] c.sd = "value"  -> [p |-> "C12", kind |-> "views", v |-> c.v, probes |-> Probes, obs |-> Obs(c.v, Probes), nt |-> ~IsScalar(c.v)]
    [] c.sd = "struct" -> [p |-> "C12", kind |-> "structview", r |-> c.r, probes |-> Probes, obs |-> Obs(StructAsValue(c.r), Probes),
                           render |-> StructRender(c.r), nt |-> TRUE]
    [] c.sd = "int"    -> [p |-> "C12", kind |-> "serdeint", text |-> c.t, nt |-> TRUE]
Emit == (EmitAll /\ c.sd \in {"value", "struct", "int"}) => PrintT(<<"REPLAY", ToJson(Record)>>)
=============================================================================
