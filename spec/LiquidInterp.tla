---------------------------- MODULE LiquidInterp ----------------------------
(***************************************************************************)
(* Small-step abstract machine for rendering a parsed Liquid template:     *)
(* one step per Renderable::render_to activation, loop-iteration           *)
(* boundary, frame push/pop, register update and sink write                *)
(* (src/template.rs, crates/core/src/runtime, crates/lib/src/stdlib        *)
(* blocks and tags).                                                       *)
(*                                                                         *)
(* Abstract state                                                          *)
(*   ctl     control stack of activations (bottom first)                   *)
(*   layers  scope stack (core / index / data / global / plain / sandbox)  *)
(*   regs    stack of register sets [intr, cyc, last]; one per sandbox     *)
(*   bufs    output buffer stack; bufs[1] is what the caller's sink took   *)
(*   sink    [failAt, calls, failed]   fault injection on the sink         *)
(*   store   [policy, cache] of the partial store                           *)
(*   status  "running" | "ok" | "err"                                      *)
(* prog / parts / data are chosen by the bounded instance (MC modules),    *)
(* and constant during a render.  Execution is deterministic: Step is pure *)
(* function of the state record, Next applies it.                          *)
(***************************************************************************)
EXTENDS LiquidValues

VARIABLES prog, parts, data, ctl, layers, regs, bufs, sink, store, status
machine == <<ctl, layers, regs, bufs, sink, store, status>>
vars == <<prog, parts, data, ctl, layers, regs, bufs, sink, store, status>>

Top(s)       == s[Len(s)]
Rest(s)      == SubSeq(s, 1, Len(s) - 1)
SetTop(s, x) == [s EXCEPT ![Len(s)] = x]
MapPut(m, k, v) == [q \in DOMAIN m \cup {k} |-> IF q = k THEN v ELSE m[q]]
EmptyMap == [q \in {} |-> NilV]

(* ----------------------------- syntax --------------------------------- *)
Lit(v)      == [e |-> "lit", v |-> v]
Var(n, idx) == [e |-> "var", name |-> n, idx |-> idx]  \* idx: sequence of expressions
V(n)        == Var(n, <<>>)
Dot(n, key) == Var(n, <<Lit(StrV(key))>>)

(* ------------------------------ scope --------------------------------- *)
Layer(kind, m) == [kind |-> kind, m |-> m]
BaseLayers(d)  == << Layer("core", EmptyMap), Layer("index", EmptyMap),
                     Layer("data", d), Layer("global", EmptyMap) >>

\* delegation chain: a layer answers iff it contains the root name;
\* a sandbox never asks its parent
RECURSIVE LayerFor(_, _)
LayerFor(ls, name) ==
  IF ls = <<>> THEN 0
  ELSE LET t == Top(ls) IN
       IF name \in DOMAIN t.m THEN Len(ls)
       ELSE IF t.kind \in {"sandbox", "core"} THEN 0
       ELSE LayerFor(Rest(ls), name)

TryGet(ls, name, steps) ==
  LET i == LayerFor(ls, name) IN
  IF i = 0 THEN Missing ELSE TryFindV(ls[i].m[name], steps, 1)

\* declarative reading: the innermost visible binding
VisibleFrom(ls) ==
  LET sb == {i \in 1..Len(ls) : ls[i].kind = "sandbox"} IN
  IF sb = {} THEN 1 ELSE CHOOSE i \in sb : \A j \in sb : j <= i
DeclBinding(ls, name) ==
  LET def == {i \in VisibleFrom(ls)..Len(ls) : name \in DOMAIN ls[i].m} IN
  IF def = {} THEN Missing
  ELSE ls[CHOOSE i \in def : \A j \in def : j <= i].m[name]

RECURSIVE GlobalPos(_)
GlobalPos(ls) == IF Top(ls).kind = "global" THEN Len(ls) ELSE GlobalPos(Rest(ls))
SetGlobal(ls, k, v) ==
  LET i == GlobalPos(ls) IN [ls EXCEPT ![i] = Layer("global", MapPut(ls[i].m, k, v))]
IndexPos == 2
GetIndex(ls, k) == IF k \in DOMAIN ls[IndexPos].m THEN ls[IndexPos].m[k] ELSE Missing
SetIndex(ls, k, v) == [ls EXCEPT ![IndexPos] = Layer("index", MapPut(ls[IndexPos].m, k, v))]

\* Expression::try_evaluate / evaluate: a value, or Missing.  The failing
\* form errs exactly when the optional form yields nothing.
RECURSIVE EvalOpt(_, _), EvalSteps(_, _, _)
EvalSteps(ls, idx, i) ==           \* sequence of scalars, or <<Missing>>
  IF i > Len(idx) THEN <<>>
  ELSE LET v == EvalOpt(ls, idx[i]) IN
       IF v = Missing \/ ~IsScalar(v) THEN <<Missing>>
       ELSE LET r == EvalSteps(ls, idx, i + 1) IN
            IF r # <<>> /\ r[1] = Missing THEN <<Missing>> ELSE <<v>> \o r
EvalOpt(ls, x) ==
  IF x.e = "lit" THEN x.v
  ELSE LET steps == EvalSteps(ls, x.idx, 1) IN
       IF steps # <<>> /\ steps[1] = Missing THEN Missing
       ELSE TryGet(ls, x.name, steps)

(* --------------------------- conditions ------------------------------- *)
\* [c: "truthy", x] | [c: "bin", op, l, r] | [c: "and"|"or", l, r]  ->  "T" "F" "E"
RECURSIVE CondEval(_, _)
CondEval(ls, c) ==
  CASE c.c = "truthy" ->
         LET v == EvalOpt(ls, c.x) IN
         IF v # Missing /\ Truthy(v) THEN "T" ELSE "F"
    [] c.c = "bin" ->
         LET a == EvalOpt(ls, c.l) IN
         IF a = Missing THEN "E"
         ELSE LET b == EvalOpt(ls, c.r) IN
              IF b = Missing THEN "E"
              ELSE IF c.op = "contains"
                   THEN (IF ~ContainsOk(a) THEN "E" ELSE IF ContainsV(a, b) THEN "T" ELSE "F")
                   ELSE (IF CmpOp(c.op, a, b) THEN "T" ELSE "F")
    [] c.c = "and" ->
         LET l == CondEval(ls, c.l) IN IF l # "T" THEN l ELSE CondEval(ls, c.r)
    [] c.c = "or" ->
         LET l == CondEval(ls, c.l) IN IF l # "F" THEN l ELSE CondEval(ls, c.r)

(* ---------------------------- registers ------------------------------- *)
FreshRegs == [intr |-> "none", cyc |-> [q \in {} |-> 0], last |-> [set |-> FALSE, s |-> ""]]

(* --------------------------- state record ----------------------------- *)
St == [ctl |-> ctl, layers |-> layers, regs |-> regs, bufs |-> bufs,
       sink |-> sink, store |-> store, status |-> status]

Tmpl(body) == [f |-> "tmpl", body |-> body, pc |-> 1]
Push(st, fr) == [st EXCEPT !.ctl = Append(st.ctl, fr)]
Pop(st)      == [st EXCEPT !.ctl = Rest(st.ctl)]
Raise(st)    == [st EXCEPT !.status = "err", !.ctl = <<>>]
Running(st)  == st.status = "running"

Interrupted(st) == Top(st.regs).intr # "none"

\* Template::render_to after an element returned: poll the interrupt register
Advance(st) ==
  IF ~Running(st) THEN st
  ELSE LET f == Top(st.ctl) IN
       [st EXCEPT !.ctl = SetTop(st.ctl,
          [f EXCEPT !.pc = IF Interrupted(st) THEN Len(f.body) + 1 ELSE f.pc + 1])]

\* a logical write: to a private buffer (capture / ifchanged) or to the sink
Write(st, text) ==
  IF ~Running(st) THEN st
  ELSE IF Len(st.bufs) > 1 THEN [st EXCEPT !.bufs = SetTop(st.bufs, Top(st.bufs) \o text)]
  ELSE LET c == st.sink.calls + 1 IN
       IF c = st.sink.failAt
       THEN [st EXCEPT !.sink = [st.sink EXCEPT !.calls = c, !.failed = TRUE],
                       !.status = "err", !.ctl = <<>>]
       ELSE [st EXCEPT !.sink = [st.sink EXCEPT !.calls = c],
                       !.bufs = <<st.bufs[1] \o text>>]

(* ----------------------------- partials ------------------------------- *)
\* parts: name -> [ok |-> TRUE, body |-> AST] | [ok |-> FALSE] (does not parse);
\* a name outside DOMAIN parts is missing.  Declarative meaning of a name:
Decl(name) == IF name \in DOMAIN parts THEN parts[name] ELSE [ok |-> FALSE]

\* store = [policy, cache]: what the partial store holds (crates/core/src/partials)
\*   eager     cache = every source compiled when the parser was built, failures kept
\*   lazy      cache filled on first use, failures memoised too; a missing name is not cached
\*   ondemand  nothing is kept, every use compiles again
StoreInit(policy) ==
  [policy |-> policy,
   cache  |-> IF policy = "eager" THEN [n \in DOMAIN parts |-> parts[n]] ELSE [n \in {} |-> [ok |-> FALSE]]]

PartialGet(st, name) ==
  LET c == st.store.cache IN
  CASE st.store.policy = "eager" ->
         [st |-> st, res |-> IF name \in DOMAIN c THEN c[name] ELSE [ok |-> FALSE]]
    [] st.store.policy = "lazy" ->
         IF name \in DOMAIN c THEN [st |-> st, res |-> c[name]]
         ELSE IF name \in DOMAIN parts
              THEN [st |-> [st EXCEPT !.store.cache = MapPut(c, name, parts[name])], res |-> parts[name]]
              ELSE [st |-> st, res |-> [ok |-> FALSE]]
    [] OTHER ->
         [st |-> st, res |-> IF name \in DOMAIN parts THEN parts[name] ELSE [ok |-> FALSE]]

InitStateP(p, d, failAt, policy) ==
  [ctl    |-> << [f |-> "tmpl", body |-> p, pc |-> 1] >>,
   layers |-> BaseLayers(d),
   regs   |-> <<FreshRegs>>,
   bufs   |-> <<"">>,
   sink   |-> [failAt |-> failAt, calls |-> 0, failed |-> FALSE],
   store  |-> StoreInit(policy),
   status |-> "running"]

InitState(p, d, failAt) == InitStateP(p, d, failAt, "eager")

(* ------------------------------ loops --------------------------------- *)
ToIntOpt(v) ==    \* scalar.to_integer(): [ok, n]
  IF v.k = "int" THEN [ok |-> TRUE, n |-> v.n]
  ELSE IF v.k = "str" /\ SpellsInt(v.s) THEN [ok |-> TRUE, n |-> ParseInt(v.s)]
  ELSE [ok |-> FALSE, n |-> 0]

\* the collection a for/tablerow/render-for iterates: [ok, items]
Materialise(ls, src) ==
  IF src.src = "range" THEN
    LET a == EvalOpt(ls, src.lo)  b == EvalOpt(ls, src.hi) IN
    IF a = Missing \/ b = Missing THEN [ok |-> FALSE, items |-> <<>>]
    ELSE LET x == ToIntOpt(a)  y == ToIntOpt(b) IN
         IF ~x.ok \/ ~y.ok THEN [ok |-> FALSE, items |-> <<>>]
         ELSE [ok |-> TRUE,
               items |-> IF x.n > y.n THEN <<>> ELSE [i \in 1..(y.n - x.n + 1) |-> IntV(x.n + i - 1)]]
  ELSE
    LET v == EvalOpt(ls, src.x) IN
    CASE v = Missing -> [ok |-> FALSE, items |-> <<>>]
      [] v.k = "arr" -> [ok |-> TRUE, items |-> v.a]
      [] v.k = "obj" ->      \* [key, value] pairs; only single-key objects are generated
           [ok |-> TRUE,
            items |-> IF DOMAIN v.o = {} THEN <<>>
                      ELSE LET key == CHOOSE q \in DOMAIN v.o : TRUE IN
                           << ArrV(<<StrV(key), v.o[key]>>) >>]
      [] v.k \in {"nil", "state"} -> [ok |-> TRUE, items |-> <<>>]
      [] OTHER -> [ok |-> FALSE, items |-> <<>>]

\* limit / offset / cols attribute: [ok, has, n]
Attr(ls, a) ==
  IF ~a.has THEN [ok |-> TRUE, has |-> FALSE, n |-> 0]
  ELSE LET v == EvalOpt(ls, a.x) IN
       IF v = Missing \/ ~IsScalar(v) \/ ~ToIntOpt(v).ok THEN [ok |-> FALSE, has |-> TRUE, n |-> 0]
       ELSE [ok |-> TRUE, has |-> TRUE, n |-> ToIntOpt(v).n]
NoAttr == [has |-> FALSE]
AttrOf(x) == [has |-> TRUE, x |-> x]

Min(a, b) == IF a < b THEN a ELSE b
Reverse(s) == [i \in 1..Len(s) |-> s[Len(s) - i + 1]]

\* what the user relies on: exactly the elements selected by offset and limit
\* (non-negative), in order, reversed if asked
Select(items, off, lim, rev) ==
  LET n == Len(items)
      o == Min(off.n, n)                                  \* absent offset has n = 0
      l == IF lim.has THEN Min(lim.n, n - o) ELSE n - o
      w == SubSeq(items, o + 1, o + l)
  IN IF rev THEN Reverse(w) ELSE w

\* implementation-shaped window (for_block.rs iter_array): clamp, drain, resize, reverse
ImplWindow(items, off, lim, rev) ==
  LET n == Len(items)
      o == Min(off.n, n)
      l == IF lim.has THEN Min(lim.n, n - o) ELSE n - o
      drained == SubSeq(items, o + 1, n)
      sized == IF l <= Len(drained) THEN SubSeq(drained, 1, l)
               ELSE drained \o [i \in 1..(l - Len(drained)) |-> NilV]
  IN IF rev THEN Reverse(sized) ELSE sized

ForloopObj(i, len, ploop) ==
  ObjV([length |-> IntV(len), parentloop |-> ploop,
        index0 |-> IntV(i - 1), index |-> IntV(i),
        rindex0 |-> IntV(len - i), rindex |-> IntV(len - i + 1),
        first |-> BoolV(i = 1), last |-> BoolV(i = len)])

TablerowObj(i, len, cols) ==     \* i is 1-based here
  LET col == (i - 1) % cols IN
  ObjV([length |-> IntV(len), index0 |-> IntV(i - 1), index |-> IntV(i),
        rindex0 |-> IntV(len - i), rindex |-> IntV(len - i + 1),
        first |-> BoolV(i = 1), last |-> BoolV(i = len),
        col0 |-> IntV(col), col |-> IntV(col + 1),
        col_first |-> BoolV(col = 0), col_last |-> BoolV(col = cols - 1 \/ i = len)])

ForLayer(var, item, fl) == Layer("plain", MapPut(MapPut(EmptyMap, "forloop", fl), var, item))

\* start iteration i of the `for` frame on top
ForIterate(st) ==
  LET f == Top(st.ctl) IN
  Push([st EXCEPT !.layers = Append(st.layers,
            ForLayer(f.s.var, f.items[f.i], ForloopObj(f.i, Len(f.items), f.ploop)))],
       Tmpl(f.s.body))

TrOpen(i, cols) ==
  LET col == (i - 1) % cols  row == (i - 1) \div cols IN
  (IF col = 0 THEN "<tr class=\"row" \o ToString(row + 1) \o "\">" ELSE "") \o
  "<td class=\"col" \o ToString(col + 1) \o "\">"
TrClose(i, len, cols) ==
  "</td>" \o (IF (i - 1) % cols = cols - 1 \/ i = len THEN "</tr>" ELSE "")

TablerowIterate(st) ==
  LET f == Top(st.ctl)
      w == Write(st, TrOpen(f.i, f.cols))
  IN IF ~Running(w) THEN w
     ELSE Push([w EXCEPT !.layers = Append(w.layers,
                 Layer("plain", MapPut(MapPut(EmptyMap, "tablerow",
                         TablerowObj(f.i, Len(f.items), f.cols)), f.s.var, f.items[f.i])))],
               Tmpl(f.s.body))

(* ------------------------- include / render --------------------------- *)
\* evaluate `key: value` arguments left to right into a map: [ok, m]
RECURSIVE ArgMap(_, _, _)
ArgMap(ls, args, i) ==
  IF i > Len(args) THEN [ok |-> TRUE, m |-> EmptyMap]
  ELSE LET v == EvalOpt(ls, args[i].x) IN
       IF v = Missing THEN [ok |-> FALSE, m |-> EmptyMap]
       ELSE LET r == ArgMap(ls, args, i + 1) IN
            IF ~r.ok THEN r
            \* later duplicates win (HashMap::insert)
            ELSE [ok |-> TRUE, m |-> IF args[i].k \in DOMAIN r.m THEN r.m ELSE MapPut(r.m, args[i].k, v)]

\* `render 'p' with X as y, k: v`: the with-binding is the first argument
EffArgs(s) == IF s.mode = "with" THEN <<[k |-> s.as, x |-> s.with]>> \o s.args ELSE s.args

PartialName(ls, x) ==     \* [ok, name]
  LET v == EvalOpt(ls, x) IN
  IF v = Missing \/ ~IsScalar(v) THEN [ok |-> FALSE, name |-> ""] ELSE [ok |-> TRUE, name |-> ToStr(v)]

\* render looks the name up as given, then with ".liquid" appended
RenderLookup(st, name) ==
  LET a == PartialGet(st, name) IN
  IF a.res.ok THEN a ELSE PartialGet(a.st, name \o ".liquid")

\* enter one isolated activation of a partial: sandbox(args) + global, fresh registers
RenderActivate(st, m, name, frame) ==
  LET g == RenderLookup(st, name) IN
  IF ~g.res.ok THEN Raise(g.st)
  ELSE Push(Push([g.st EXCEPT !.layers = Append(Append(g.st.layers, Layer("sandbox", m)),
                                                   Layer("global", EmptyMap)),
                              !.regs = Append(g.st.regs, FreshRegs)],
                 frame),
            Tmpl(g.res.body))

RenderForIterate(st) ==       \* top is the "renderfor" frame, start iteration f.i
  LET f == Top(st.ctl)
      a == ArgMap(st.layers, f.s.args, 1)
  IN IF ~a.ok THEN Raise(st)
     ELSE LET m == MapPut(MapPut(a.m, "forloop", ForloopObj(f.i, Len(f.items), NilV)),
                          f.s.as, f.items[f.i])
          IN RenderActivate(Pop(st), m, f.name, f)

(* --------------------------- statements ------------------------------- *)
\* executes statement s, the current element of the tmpl frame on top
Exec(st, s) ==
  CASE s.t = "text" -> Advance(Write(st, s.c))
    [] s.t = "raw"  -> Advance(Write(st, s.c))
    [] s.t = "comment" -> Advance(st)
    [] s.t = "out" ->
         LET v == EvalOpt(st.layers, s.x) IN
         IF v = Missing THEN Raise(st) ELSE Advance(Write(st, ToStr(v)))
    [] s.t = "assign" ->
         LET v == EvalOpt(st.layers, s.x) IN
         IF v = Missing THEN Raise(st)
         ELSE Advance([st EXCEPT !.layers = SetGlobal(st.layers, s.var, v)])
    [] s.t \in {"inc", "dec"} ->
         LET c   == GetIndex(st.layers, s.var)
             cur == IF c # Missing /\ c.k = "int" THEN c.n ELSE 0
             shown == IF s.t = "inc" THEN cur ELSE cur - 1
             next  == IF s.t = "inc" THEN cur + 1 ELSE cur - 1
             w == Write(st, ToString(shown))
         IN IF ~Running(w) THEN w
            ELSE Advance([w EXCEPT !.layers = SetIndex(w.layers, s.var, IntV(next))])
    [] s.t \in {"break", "continue"} ->
         Advance([st EXCEPT !.regs = SetTop(st.regs, [Top(st.regs) EXCEPT !.intr = s.t])])
    [] s.t = "cycle" ->
         LET r   == Top(st.regs)
             idx == IF s.key \in DOMAIN r.cyc THEN r.cyc[s.key] ELSE 0
             n   == Len(s.vals)
             st1 == [st EXCEPT !.regs = SetTop(st.regs,
                        [r EXCEPT !.cyc = MapPut(r.cyc, s.key, (idx + 1) % n)])]
         IN IF idx >= n THEN Raise(st1)
            ELSE LET v == EvalOpt(st.layers, s.vals[idx + 1]) IN
                 IF v = Missing THEN Raise(st1) ELSE Advance(Write(st1, ToStr(v)))
    [] s.t \in {"if", "unless"} ->
         LET r == CondEval(st.layers, s.cond) IN
         IF r = "E" THEN Raise(st)
         ELSE Push(st, Tmpl(IF (r = "T") = (s.t = "if") THEN s.then ELSE s.else))
    [] s.t = "case" ->
         LET v == EvalOpt(st.layers, s.x) IN
         IF v = Missing THEN Raise(st)
         ELSE LET RECURSIVE Arm(_, _)
                  \* first arm holding an equal value; values are evaluated only until a match
                  Arm(w, j) ==
                    IF w > Len(s.whens) THEN [r |-> "else"]
                    ELSE IF j > Len(s.whens[w].vals) THEN Arm(w + 1, 1)
                    ELSE LET a == EvalOpt(st.layers, s.whens[w].vals[j]) IN
                         IF a = Missing THEN [r |-> "err"]
                         ELSE IF ValueEq(a, v) THEN [r |-> "arm", w |-> w] ELSE Arm(w, j + 1)
                  res == Arm(1, 1)
              IN (CASE res.r = "err"  -> Raise(st)
                    [] res.r = "arm"  -> Push(st, Tmpl(s.whens[res.w].body))
                    [] res.r = "else" -> Push(st, Tmpl(s.else)))
    [] s.t = "for" ->
         LET c == Materialise(st.layers, s.src) IN
         IF ~c.ok THEN Raise(st)
         ELSE LET lim == Attr(st.layers, s.lim)  off == Attr(st.layers, s.off) IN
              IF ~lim.ok \/ ~off.ok THEN Raise(st)
              ELSE LET items == ImplWindow(c.items, off, lim, s.rev) IN
                   IF Len(items) = 0 THEN Push(st, Tmpl(s.else))
                   ELSE LET pl == TryGet(st.layers, "forloop", <<>>) IN
                        ForIterate(Push(st, [f |-> "for", s |-> s, items |-> items, i |-> 1,
                                             want |-> Select(c.items, off, lim, s.rev),
                                             ploop |-> IF pl = Missing THEN NilV ELSE pl]))
    [] s.t = "tablerow" ->
         LET c == Materialise(st.layers, s.src) IN
         IF ~c.ok THEN Raise(st)
         ELSE LET cols == Attr(st.layers, s.cols)
                  lim  == Attr(st.layers, s.lim)  off == Attr(st.layers, s.off) IN
              IF ~cols.ok \/ ~lim.ok \/ ~off.ok THEN Raise(st)
              ELSE LET items == ImplWindow(c.items, off, lim, FALSE) IN
                   IF Len(items) = 0 THEN Advance(st)
                   ELSE TablerowIterate(Push(st, [f |-> "tablerow", s |-> s, items |-> items, i |-> 1,
                                                  want |-> Select(c.items, off, lim, FALSE),
                                                  cols |-> IF cols.has THEN cols.n ELSE Len(items)]))
    [] s.t = "capture" ->
         Push(Push([st EXCEPT !.bufs = Append(st.bufs, "")], [f |-> "capture", var |-> s.var]),
              Tmpl(s.body))
    [] s.t = "ifchanged" ->
         Push(Push([st EXCEPT !.bufs = Append(st.bufs, "")], [f |-> "ifchanged"]), Tmpl(s.body))
    [] s.t = "include" ->
         LET n == PartialName(st.layers, s.name) IN
         IF ~n.ok THEN Raise(st)
         ELSE LET a == ArgMap(st.layers, s.args, 1) IN
              IF ~a.ok THEN Raise(st)
              ELSE LET g == PartialGet(st, n.name) IN
                   IF ~g.res.ok THEN Raise(g.st)
                   ELSE Push(Push([g.st EXCEPT !.layers = Append(g.st.layers, Layer("plain", a.m))],
                                  [f |-> "include"]),
                             Tmpl(g.res.body))
    [] s.t = "render" ->
         LET n == PartialName(st.layers, s.name) IN
         IF ~n.ok THEN Raise(st)
         ELSE IF s.mode = "for" THEN
              LET c == Materialise(st.layers, s.src) IN
              IF ~c.ok THEN Raise(st)
              ELSE IF Len(c.items) = 0 THEN Advance(st)
              ELSE RenderForIterate(Push(st, [f |-> "renderfor", s |-> s, items |-> c.items,
                                              i |-> 1, name |-> n.name,
                                              sl |-> st.layers, sr |-> st.regs]))
         ELSE LET a == ArgMap(st.layers, EffArgs(s), 1) IN
              IF ~a.ok THEN Raise(st)
              ELSE RenderActivate(st, a.m, n.name, [f |-> "render", sl |-> st.layers, sr |-> st.regs])

(* ------------------------------ returns ------------------------------- *)
\* the body activation on top has finished: pop it and continue its owner
Return(st) ==
  LET st1 == Pop(st) IN
  IF st1.ctl = <<>> THEN [st1 EXCEPT !.status = "ok"]
  ELSE LET o == Top(st1.ctl) IN
  CASE o.f = "tmpl" -> Advance(st1)          \* branch of if/case, else of for
    [] o.f = "for" ->
         LET intr == Top(st1.regs).intr
             st2  == [st1 EXCEPT !.layers = Rest(st1.layers),
                                 !.regs = SetTop(st1.regs, [Top(st1.regs) EXCEPT !.intr = "none"])]
         IN IF intr = "break" \/ o.i = Len(o.items) THEN Advance(Pop(st2))
            ELSE ForIterate([st2 EXCEPT !.ctl = SetTop(st2.ctl, [o EXCEPT !.i = o.i + 1])])
    [] o.f = "tablerow" ->
         \* no interrupt handling in tablerow: a pending break keeps cutting bodies short
         LET st2 == Write([st1 EXCEPT !.layers = Rest(st1.layers)],
                          TrClose(o.i, Len(o.items), o.cols))
         IN IF ~Running(st2) THEN st2
            ELSE IF o.i = Len(o.items) THEN Advance(Pop(st2))
            ELSE TablerowIterate([st2 EXCEPT !.ctl = SetTop(st2.ctl, [o EXCEPT !.i = o.i + 1])])
    [] o.f = "capture" ->
         Advance(Pop([st1 EXCEPT !.bufs = Rest(st1.bufs),
                                 !.layers = SetGlobal(st1.layers, o.var, StrV(Top(st1.bufs)))]))
    [] o.f = "ifchanged" ->
         LET text == Top(st1.bufs)
             r    == Top(st1.regs)
             changed == ~r.last.set \/ r.last.s # text
             st2 == [st1 EXCEPT !.bufs = Rest(st1.bufs),
                                !.regs = SetTop(st1.regs, [r EXCEPT !.last = [set |-> TRUE, s |-> text]])]
         IN Advance(Pop(IF changed THEN Write(st2, text) ELSE st2))
    [] o.f = "include" ->
         Advance(Pop([st1 EXCEPT !.layers = Rest(st1.layers)]))
    [] o.f = "render" ->
         Advance(Pop([st1 EXCEPT !.layers = Rest(Rest(st1.layers)), !.regs = Rest(st1.regs)]))
    [] o.f = "renderfor" ->
         \* the interrupt of the iteration's own (sandbox) registers decides
         LET intr == Top(st1.regs).intr
             st2  == [st1 EXCEPT !.layers = Rest(Rest(st1.layers)), !.regs = Rest(st1.regs)]
         IN IF intr = "break" \/ o.i = Len(o.items) THEN Advance(Pop(st2))
            ELSE RenderForIterate([st2 EXCEPT !.ctl = SetTop(st2.ctl, [o EXCEPT !.i = o.i + 1])])

\* Write may end the render from inside Pop(...)/Advance(...) compositions:
\* every helper above is the identity on a state that is no longer running.

Step(st) ==
  LET f == Top(st.ctl) IN
  IF f.pc > Len(f.body) THEN Return(st) ELSE Exec(st, f.body[f.pc])

(* ------------------------------ actions ------------------------------- *)
Set(n) == /\ ctl' = n.ctl /\ layers' = n.layers /\ regs' = n.regs /\ bufs' = n.bufs
          /\ sink' = n.sink /\ store' = n.store /\ status' = n.status

SetInit(n) == /\ ctl = n.ctl /\ layers = n.layers /\ regs = n.regs /\ bufs = n.bufs
              /\ sink = n.sink /\ store = n.store /\ status = n.status

AtStmt(kinds) == /\ status = "running"
                 /\ LET f == Top(ctl) IN f.pc <= Len(f.body) /\ f.body[f.pc].t \in kinds
Returning(owner) == /\ status = "running"
                    /\ LET f == Top(ctl) IN f.pc > Len(f.body)
                    /\ IF Len(ctl) = 1 THEN owner = "none" ELSE ctl[Len(ctl) - 1].f = owner
Do == Set(Step(St)) /\ UNCHANGED <<prog, parts, data>>

Text      == AtStmt({"text", "raw", "comment"}) /\ Do
Output    == AtStmt({"out"}) /\ Do
Assign    == AtStmt({"assign"}) /\ Do
Counter   == AtStmt({"inc", "dec"}) /\ Do
Interrupt == AtStmt({"break", "continue"}) /\ Do
Cycle     == AtStmt({"cycle"}) /\ Do
Branch    == AtStmt({"if", "unless", "case"}) /\ Do
ForEnter  == AtStmt({"for"}) /\ Do
TablerowEnter == AtStmt({"tablerow"}) /\ Do
CaptureEnter  == AtStmt({"capture", "ifchanged"}) /\ Do
IncludeEnter  == AtStmt({"include"}) /\ Do
RenderEnter   == AtStmt({"render"}) /\ Do
BranchExit    == Returning("tmpl") /\ Do
ForIter       == Returning("for") /\ Do
TablerowCell  == Returning("tablerow") /\ Do
CaptureExit   == (Returning("capture") \/ Returning("ifchanged")) /\ Do
IncludeExit   == Returning("include") /\ Do
RenderExit    == (Returning("render") \/ Returning("renderfor")) /\ Do
Finish        == Returning("none") /\ Do

Next == \/ Text \/ Output \/ Assign \/ Counter \/ Interrupt \/ Cycle \/ Branch
        \/ ForEnter \/ TablerowEnter \/ CaptureEnter \/ IncludeEnter \/ RenderEnter
        \/ BranchExit \/ ForIter \/ TablerowCell \/ CaptureExit \/ IncludeExit \/ RenderExit
        \/ Finish

Done == status # "running"
Output_ == bufs[1]     \* what the sink accepted

\* the whole render as a function (used by the history level and by invariants
\* that compare with the fault-free run)
RECURSIVE RunFrom(_)
RunFrom(st) == IF st.status # "running" THEN st ELSE RunFrom(Step(st))
Result(st) == IF st.status = "ok" THEN [ok |-> TRUE, out |-> st.bufs[1]] ELSE [ok |-> FALSE]

(* ---------------------------- invariants ------------------------------ *)
TypeOK == /\ status \in {"running", "ok", "err"}
          /\ Len(layers) >= 4 /\ Len(regs) >= 1 /\ Len(bufs) >= 1

\* C04: the caller's data object is never modified
DataUntouched == layers[3] = Layer("data", data)

\* C04/C18: the delegation chain yields the innermost visible binding
InnermostWins(names) == \A n \in names : TryGet(layers, n, <<>>) = DeclBinding(layers, n)

\* structure: builder layers at the bottom; one register set per sandbox
LayerShape ==
  /\ layers[1].kind = "core" /\ layers[2].kind = "index"
  /\ layers[3].kind = "data" /\ layers[4].kind = "global"
  /\ \A i \in 5..Len(layers) : layers[i].kind \in {"plain", "sandbox", "global"}
  /\ Len(regs) = 1 + Cardinality({i \in 1..Len(layers) : layers[i].kind = "sandbox"})
  /\ \A i \in 1..Len(layers) : layers[i].kind = "sandbox" =>
        i < Len(layers) /\ layers[i + 1].kind = "global"

\* a finished render has unwound every scope and buffer it opened
CleanFinish == status = "ok" => /\ Len(layers) = 4 /\ Len(regs) = 1 /\ Len(bufs) = 1 /\ ctl = <<>>

\* C05: a loop iterates exactly the declaratively selected elements, and the
\* loop object of the running iteration is truthful about it
LoopFrames == {i \in 1..Len(ctl) : ctl[i].f \in {"for", "tablerow"}}
VisitsExactlySelected == \A i \in LoopFrames : ctl[i].items = ctl[i].want
\* the scope layer of the k-th open loop (counting plain layers pushed by loops)
LoopObjectTruthful ==
  \A i \in LoopFrames :
    LET f == ctl[i]
        len == Len(f.want)
        \* the iteration layer is the plain layer that defines the loop variable and the loop object
        objname == IF f.f = "for" THEN "forloop" ELSE "tablerow"
        cands == {j \in 5..Len(layers) : layers[j].kind = "plain" /\ objname \in DOMAIN layers[j].m
                                         /\ f.s.var \in DOMAIN layers[j].m}
    IN \E j \in cands :
         LET o == layers[j].m[objname].o IN
         /\ layers[j].m[f.s.var] = f.want[f.i]
         /\ o.index = IntV(f.i) /\ o.index0 = IntV(f.i - 1)
         /\ o.rindex = IntV(len - f.i + 1) /\ o.rindex0 = IntV(len - f.i)
         /\ o.first = BoolV(f.i = 1) /\ o.last = BoolV(f.i = len)
         /\ o.length = IntV(len)
         /\ f.f = "tablerow" =>
               /\ o.col0 = IntV((f.i - 1) % f.cols) /\ o.col = IntV(((f.i - 1) % f.cols) + 1)
               /\ o.col_first = BoolV((f.i - 1) % f.cols = 0)
               /\ o.col_last = BoolV((f.i - 1) % f.cols = f.cols - 1 \/ f.i = len)

\* C05: a break consumed at a loop boundary ends exactly that loop, a continue none
ForFrames(c) == Cardinality({i \in 1..Len(c) : c[i].f = "for"})
BreakEndsInnermostOnly ==
  [][Returning("for") =>
       LET intr == Top(regs).intr IN
       /\ Top(regs').intr = "none"
       /\ intr = "break" => ForFrames(ctl') = ForFrames(ctl) - 1
       /\ intr = "continue" =>
             ForFrames(ctl') = ForFrames(ctl) - (IF ctl[Len(ctl) - 1].i = Len(ctl[Len(ctl) - 1].items) THEN 1 ELSE 0)]_vars

\* C19: whatever the store holds is what the sources declare
StoreRefinesDecl == \A n \in DOMAIN store.cache : store.cache[n] = Decl(n)

\* C08: while a rendered partial runs, and when it returns, the caller's scope
\* layers (counters excepted: they are shared by all layers) and registers are
\* exactly what they were when the render tag started
MaskIndex(ls) == [ls EXCEPT ![IndexPos] = Layer("index", EmptyMap)]
RenderIsolates ==
  \A i \in 1..Len(ctl) :
    ctl[i].f \in {"render", "renderfor"} =>
      LET f == ctl[i]  n == Len(f.sl) IN
      /\ Len(layers) >= n /\ MaskIndex(SubSeq(layers, 1, n)) = MaskIndex(f.sl)
      /\ Len(regs) >= Len(f.sr) /\ SubSeq(regs, 1, Len(f.sr)) = f.sr
\* ... and inside it only its arguments and its own assignments resolve
RenderSeesOnlyArgs(names) ==
  \A i \in 1..Len(layers) :
    layers[i].kind = "sandbox" =>
      \A n \in names : n \notin DOMAIN layers[i].m =>
         \A top \in (i + 1)..Len(layers) :
            (\A j \in (i + 1)..top : n \notin DOMAIN layers[j].m) =>
               TryGet(SubSeq(layers, 1, top), n, <<>>) = Missing

\* C10: after the sink failed nothing more is accepted and the result is an error
FailedMeansErr == sink.failed => status = "err"
NoWriteAfterFailure == [][sink.failed => bufs'[1] = bufs[1] /\ sink' = sink]_vars
\* C04: only assign/capture change the render-wide global layer, and only their name
GlobalWrittenOnlyByAssign ==
  [][layers'[4] # layers[4] =>
       \/ AtStmt({"assign"})
       \/ Returning("capture")]_vars
=============================================================================
