--------------------------- MODULE LiquidPartials ---------------------------
(***************************************************************************)
(* The lazily compiling partial store shared by concurrent renders         *)
(* (crates/core/src/partials/lazy.rs): a cache                             *)
(*     Mutex<HashMap<name, Result<Arc<Renderable>>>>                        *)
(* read and filled under one lock.  Threads call get / try_get; every      *)
(* step inside the critical section is a separate action so that TLC       *)
(* explores every interleaving around the lock.                            *)
(***************************************************************************)
EXTENDS LiquidPartialsBase

VARIABLES pc,        \* per thread: idle | acquire | check | read | compile | insert | release | return
          req,       \* per thread: the name asked for
          res,       \* per thread: the result being produced
          lock,      \* holder of the cache mutex, or NoThread
          cache,     \* name -> "template" | "parse-error"   (what the map holds)
          compiles,  \* name -> how many times it was compiled (history)
          done       \* per thread: calls completed
pvars == <<pc, req, res, lock, cache, compiles, done>>

PInit == /\ pc = [t \in Threads |-> "idle"] /\ req = [t \in Threads |-> "-"]
         /\ res = [t \in Threads |-> "-"] /\ lock = NoThread
         /\ cache = [n \in {} |-> "-"] /\ compiles = [n \in Names |-> 0]
         /\ done = [t \in Threads |-> 0]

Goto(t, l) == pc' = [pc EXCEPT ![t] = l]

Call(t, n) == /\ pc[t] = "idle" /\ done[t] < MaxCalls
              /\ req' = [req EXCEPT ![t] = n] /\ Goto(t, "acquire")
              /\ UNCHANGED <<res, lock, cache, compiles, done>>
Acquire(t) == /\ pc[t] = "acquire" /\ lock = NoThread
              /\ lock' = t /\ Goto(t, "check")
              /\ UNCHANGED <<req, res, cache, compiles, done>>
CheckHit(t) == /\ pc[t] = "check"
               /\ IF req[t] \in DOMAIN cache
                  THEN res' = [res EXCEPT ![t] = cache[req[t]]] /\ Goto(t, "release")
                  ELSE UNCHANGED res /\ Goto(t, "read")
               /\ UNCHANGED <<req, lock, cache, compiles, done>>
ReadSource(t) == /\ pc[t] = "read"
                 /\ IF req[t] \in Absent
                    THEN res' = [res EXCEPT ![t] = "missing"] /\ Goto(t, "release")   \* not cached
                    ELSE UNCHANGED res /\ Goto(t, "compile")
                 /\ UNCHANGED <<req, lock, cache, compiles, done>>
Compile(t) == /\ pc[t] = "compile"
              /\ res' = [res EXCEPT ![t] = Decl(req[t])]
              /\ compiles' = [compiles EXCEPT ![req[t]] = @ + 1]
              /\ Goto(t, "insert")
              /\ UNCHANGED <<req, lock, cache, done>>
Insert(t) == /\ pc[t] = "insert"
             /\ cache' = [n \in DOMAIN cache \cup {req[t]} |-> IF n = req[t] THEN res[t] ELSE cache[n]]
             /\ Goto(t, "release")
             /\ UNCHANGED <<req, res, lock, compiles, done>>
Release(t) == /\ pc[t] = "release" /\ lock = t
              /\ lock' = NoThread /\ Goto(t, "return")
              /\ UNCHANGED <<req, res, cache, compiles, done>>
Return(t) == /\ pc[t] = "return"
             /\ done' = [done EXCEPT ![t] = @ + 1] /\ Goto(t, "idle")
             /\ UNCHANGED <<req, res, lock, cache, compiles>>

PNext == \E t \in Threads :
           \/ \E n \in Names : Call(t, n)
           \/ Acquire(t) \/ CheckHit(t) \/ ReadSource(t) \/ Compile(t) \/ Insert(t) \/ Release(t) \/ Return(t)

PSpec == PInit /\ [][PNext]_pvars
PFair == PSpec /\ \A t \in Threads : WF_pvars(Acquire(t) \/ CheckHit(t) \/ ReadSource(t) \/ Compile(t)
                                               \/ Insert(t) \/ Release(t) \/ Return(t))

Inside(t) == pc[t] \in {"check", "read", "compile", "insert", "release"}

(* ---- properties (C20) ---- *)
MutualExclusion == \A a, b \in Threads : Inside(a) /\ Inside(b) => a = b
LockMatchesInside == \A t \in Threads : Inside(t) <=> lock = t
AtMostOneCompilePerName == \A n \in Names : compiles[n] <= 1
\* every call returns what it would return if executed alone
ResultIndependentOfSchedule == \A t \in Threads : pc[t] = "return" => res[t] = Decl(req[t])
CacheRefinesDecl == \A n \in DOMAIN cache : cache[n] = Decl(n) /\ n \notin Absent
\* the lock is free whenever nobody is inside: no interleaving poisons later use
NoPoison == (\A t \in Threads : ~Inside(t)) => lock = NoThread
EventuallyReturns == \A t \in Threads : (pc[t] = "acquire") ~> (pc[t] = "idle")

=============================================================================
