------------------------------ MODULE MC_C08 ------------------------------
(* Bounded instance for C08 (include shares / render isolates) and C19     *)
(* (eager, lazy and on-demand stores agree): a caller, a partial p whose   *)
(* body ranges over all statement sequences up to MaxBody over a scoping   *)
(* alphabet, a second-level partial, missing and broken partials on live   *)
(* and dead paths, every invocation form, inside and outside a loop.       *)
EXTENDS LiquidInterp, Json

CONSTANTS MaxBody, EmitAll, Policies, Repeat

Txt(c)  == [t |-> "text", c |-> c]
Out(x)  == [t |-> "out", x |-> x]
S(s)    == Lit(StrV(s))
Read(n) == [t |-> "if", cond |-> [c |-> "truthy", x |-> V(n)],
            then |-> <<Out(V(n))>>, else |-> <<Txt("-")>>]
Assign_(n, x) == [t |-> "assign", var |-> n, x |-> x]
Inc(n)  == [t |-> "inc", var |-> n]
Arg(k, x) == [k |-> k, x |-> x]
Include_(name, args) == [t |-> "include", name |-> name, args |-> args]
Render_(name, args) == [t |-> "render", name |-> name, mode |-> "plain", args |-> args]
RenderWith(name, x, as, args) == [t |-> "render", name |-> name, mode |-> "with", with |-> x, as |-> as, args |-> args]
RenderFor(name, src, as, args) == [t |-> "render", name |-> name, mode |-> "for", src |-> src, as |-> as, args |-> args]
Range(a, b) == [src |-> "range", lo |-> Lit(IntV(a)), hi |-> Lit(IntV(b))]
Loop(v, body) == [t |-> "for", var |-> v, src |-> Range(1, 2), lim |-> NoAttr, off |-> NoAttr, rev |-> FALSE,
                  body |-> body, else |-> <<>>]
Dead(body) == [t |-> "if", cond |-> [c |-> "truthy", x |-> Lit(BoolV(FALSE))], then |-> body, else |-> <<>>]
Cycle_ == [t |-> "cycle", key |-> [named |-> TRUE, g |-> "g"], vals |-> <<S("x"), S("y"), S("z")>>]

(* ---- body of partial p ---- *)
PLeaves == { Read("a"), Read("b"), Read("x"), Assign_("a", S("q")), Inc("a"), [t |-> "break"], [t |-> "continue"],
             Txt("t"), Cycle_, Include_(S("p2"), <<>>), Render_(S("p2"), <<Arg("b", V("a"))>>),
             Out(Dot("forloop", "index")) }
RECURSIVE Seqs(_)
Seqs(n) == IF n = 0 THEN {<<>>} ELSE {<<s>> \o r : s \in PLeaves, r \in Seqs(n - 1)}
PBodies == UNION {Seqs(n) : n \in 0..MaxBody}

P2Body == <<Txt("("), Read("a"), Read("b"), Assign_("b", S("r")), Inc("a"), Txt(")")>>

(* ---- invocation forms ---- *)
Calls ==
  { Include_(S("p"), <<>>), Include_(S("p"), <<Arg("a", S("i"))>>), Include_(V("pv"), <<Arg("b", V("a"))>>),
    Render_(S("p"), <<>>), Render_(S("p"), <<Arg("a", S("i")), Arg("b", V("a"))>>),
    Render_(V("pv"), <<Arg("a", V("nosuch"))>>),
    RenderWith(S("p"), V("a"), "b", <<>>), RenderWith(S("p"), S("w"), "a", <<Arg("a", S("i"))>>),
    RenderFor(S("p"), Range(5, 7), "a", <<>>), RenderFor(S("p"), [src |-> "expr", x |-> V("arr")], "b", <<Arg("a", S("i"))>>),
    RenderFor(S("p"), Range(3, 2), "a", <<>>),
    Render_(S("q"), <<>>),                \* resolves through "q.liquid"
    Include_(S("missing"), <<>>), Render_(S("missing"), <<>>),
    Include_(S("broken"), <<>>), Render_(S("broken"), <<>>),
    RenderFor(S("missing"), Range(3, 2), "a", <<>>),    \* nothing to iterate: never looked up
    Include_(S("p.liquid"), <<>>), Render_(S("p.liquid"), <<>>),   \* a second spelling with its own source
    \* an argument named like the variable that names the partial: the name is resolved in the caller's scope
    Include_(V("pv"), <<Arg("pv", S("p2"))>>), Render_(V("pv"), <<Arg("pv", S("p2"))>>),
    RenderWith(V("pv"), S("p2"), "pv", <<>>), RenderFor(V("pv"), Range(1, 2), "pv", <<>>),
    Include_(S("broken.liquid"), <<>>),
    \* partials whose source is empty or blank are partials like any other (under every policy)
    \* a partial that rebinds its own argument and hands it on: the new value is what every later read sees
    Render_(S("p3"), <<Arg("a", S("i"))>>), RenderWith(S("p3"), S("w"), "a", <<>>), RenderFor(S("p3"), Range(1, 2), "a", <<>>),
    Include_(S("p3"), <<Arg("a", S("i"))>>),
    \* a partial whose name starts with a capital: names are compared as they are spelled, in every store
    Include_(S("Zed"), <<>>), Render_(S("zed"), <<>>),
    \* the loop object of the for-as form knows nothing of the caller's loops (the callers wrap every call in a loop as well)
    RenderFor(S("p6"), Range(1, 2), "a", <<>>), Render_(S("p6"), <<>>),
    \* a name is looked up exactly as spelled: padded names are other names (and unknown here), under every policy
    Include_(S("p "), <<>>), Render_(S(" p"), <<>>), Render_(S("q "), <<>>), Include_(S(" "), <<>>),
    \* partials that print and then ask to continue / break: per element in the for-as form, through include in a caller loop
    RenderFor(S("p4"), Range(5, 7), "a", <<>>), RenderFor(S("p5"), Range(5, 7), "a", <<>>), Render_(S("p4"), <<Arg("a", S("i"))>>),
    Include_(S("p4"), <<Arg("a", S("i"))>>), Include_(S("p5"), <<Arg("a", S("i"))>>),
    Include_(S("empty"), <<>>), Render_(S("empty"), <<>>), Include_(S("blank"), <<>>), Render_(S("blank"), <<Arg("a", S("i"))>>) }

W(n) == Render_(S("wrap"), <<Arg("which", S(n))>>)
\* two uses of related names within one parser lifetime (both spellings of a
\* name, a broken name whose .liquid twin is fine), in both orders
Duals == { Render_(S("p"), <<>>), Include_(S("p.liquid"), <<>>), Render_(S("broken"), <<>>),
           Include_(S("broken.liquid"), <<>>), Render_(S("q"), <<>>), Include_(S("q.liquid"), <<>>) }
Callers ==
  {<<Assign_("a", S("s"))>> \o pre \o wrap \o <<Read("a"), Read("b"), Read("x"), Inc("a"), Cycle_, Txt("$")>> :
     pre \in {<<>>, <<Cycle_, Inc("a")>>},
     wrap \in UNION {{ <<c>>, <<Loop("x", <<Out(V("x")), c, Txt(";")>>)>>, <<Dead(<<c>>), Txt("d")>> } : c \in Calls}} \cup
  {<<c1, Txt("|"), c2, Txt("|"), c1, Txt("$")>> : c1 \in Duals, c2 \in Duals} \cup
  \* one compiled render tag (inside partial `wrap`) resolving different names in turn: every look-up starts from the bare name
  {<<W(n1), W(n2), W(n3), Txt("$")>> : n1 \in {"p", "q"}, n2 \in {"p", "q", "broken"}, n3 \in {"p", "q"}}

Parts(body) ==
  [n \in {"p", "p2", "q.liquid", "broken", "broken.liquid", "p.liquid", "empty", "blank", "p3", "p4", "p5", "p6", "wrap", "Zed"} |->
     CASE n = "p" -> [ok |-> TRUE, body |-> body]
       [] n = "p2" -> [ok |-> TRUE, body |-> P2Body]
       [] n = "q.liquid" -> [ok |-> TRUE, body |-> <<Txt("Q"), Read("a")>>]
       [] n = "broken" -> [ok |-> FALSE]
       [] n = "broken.liquid" -> [ok |-> TRUE, body |-> <<Txt("BL")>>]
       [] n = "p.liquid" -> [ok |-> TRUE, body |-> <<Txt("PL"), Read("b")>>]
       [] n = "p3" -> [ok |-> TRUE, body |-> <<Assign_("a", S("q")), Render_(S("p2"), <<Arg("b", V("a"))>>), Include_(S("p2"), <<Arg("b", V("a"))>>),
                                              Assign_("a", Lit(BoolV(FALSE))), Read("a"), Assign_("x", Lit(NilV)), Read("x")>>]
       [] n = "p6" -> [ok |-> TRUE, body |-> <<[t |-> "if", cond |-> [c |-> "truthy", x |-> Var("forloop", <<S("parentloop")>>)], then |-> <<Txt("P")>>, else |-> <<Txt("-")>>],
                                              [t |-> "if", cond |-> [c |-> "truthy", x |-> V("forloop")], then |-> <<Out(Dot("forloop", "index"))>>, else |-> <<Txt("n")>>]>>]
       [] n = "Zed" -> [ok |-> TRUE, body |-> <<Txt("Z")>>]
       [] n = "wrap" -> [ok |-> TRUE, body |-> <<Txt("["), Render_(V("which"), <<>>), Txt("]")>>]
       [] n = "p4" -> [ok |-> TRUE, body |-> <<Out(V("a")), [t |-> "continue"], Txt("!")>>]
       [] n = "p5" -> [ok |-> TRUE, body |-> <<Out(V("a")), [t |-> "break"], Txt("!")>>]
       [] n = "empty" -> [ok |-> TRUE, body |-> <<>>]
       [] n = "blank" -> [ok |-> TRUE, body |-> <<Txt(" ")>>]]

DataChoices == { [n \in {"pv", "arr"} |-> IF n = "pv" THEN StrV("p") ELSE ArrV(<<IntV(8), IntV(9)>>)],
                 [n \in {"pv", "arr", "b"} |-> CASE n = "pv" -> StrV("p") [] n = "arr" -> ArrV(<<IntV(8)>>) [] n = "b" -> StrV("d")] }

VARIABLE policy
allvars == <<vars, policy>>
Init == /\ prog \in Callers
        /\ \E body \in PBodies : parts = Parts(body)
        /\ data \in DataChoices
        /\ policy \in Policies
        /\ SetInit(InitStateP(prog, data, 0, policy))
Spec == Init /\ [][Next /\ UNCHANGED policy]_allvars

Names == {"a", "b", "x", "pv", "arr", "forloop"}
Inv == /\ TypeOK /\ DataUntouched /\ LayerShape /\ CleanFinish
       /\ InnermostWins(Names) /\ RenderIsolates /\ RenderSeesOnlyArgs(Names) /\ StoreRefinesDecl

\* C19: an error arises only when an executed tag names a partial that is missing or broken
ErrorOnlyWhenReached ==
  [][status' = "err" /\ status = "running" =>
       \/ AtStmt({"include", "render", "out", "cycle", "assign", "if", "for"})
       \/ Returning("renderfor")]_allvars

\* C19: the three policies are observationally equal, and a store warmed by
\* earlier renders (lazy cache filled, failures memoised) changes nothing
PoliciesAgree ==
  Done => \A q \in {"eager", "lazy", "ondemand"} :
             Result(RunFrom(InitStateP(prog, data, 0, q))) = Result(St)
RepeatedUseStable ==
  Done => Result(RunFrom([InitStateP(prog, data, 0, policy) EXCEPT !.store = store])) = Result(St)
\* building the parser never fails and never depends on broken or missing partials
BuildNeverFails == \A q \in {"eager", "lazy", "ondemand"} : StoreInit(q).policy = q

Record == [p |-> "C08", kind |-> "render", prog |-> prog, parts |-> parts, data |-> data,
           expect |-> Result(St), nt |-> TRUE, policies |-> IF Repeat > 1 THEN <<"eager", "lazy", "ondemand">> ELSE <<policy>>,
           repeat |-> Repeat]
\* one record per (program, partials, data): emitted from the run of the first policy only
Emit == (EmitAll /\ Done /\ policy = CHOOSE q \in Policies : TRUE) => PrintT(<<"REPLAY", ToJson(Record)>>)
=============================================================================
