SPECIFICATION Spec
CONSTANTS
  Depth2Pool = FALSE
  EmitAll = TRUE
INVARIANTS Laws Emit
CHECK_DEADLOCK FALSE
