------------------------------ MODULE MC_C18 ------------------------------
(* Bounded instance of LiquidRuntime for property C18: every operation     *)
(* sequence up to MaxLen from every base map; state invariants and step    *)
(* properties checked by TLC; one REPLAY record per reachable (base, ops)  *)
(* for execution on the real frame types.                                  *)
EXTENDS LiquidRuntime, Json

CONSTANTS MaxLen,      \* bound on the operation sequence
          EmitAll,     \* TRUE: a record for every sequence; FALSE: model only
          PushShapes   \* shapes allowed for pushed maps (reduced alphabet for depth 6)

\* the reduced push alphabet of the depth-6 model-only tier
ReducedShapes == {sh \in Shapes : (sh["a"] = "absent" /\ sh["b"] \in {"absent", "scalar"})
                                    \/ (sh["b"] = "absent")}

KeySeq == <<"a", "b">>
Pseudo == <<"size", "first", "last", "nosuch">>
SubSeq3 == <<"x", "size", "y">>
ASSUME {KeySeq[i] : i \in 1..Len(KeySeq)} = Keys

VARIABLES base, stack, hist
vars == <<base, stack, hist>>

MCOps == {o \in Ops : o.op \in {"PushPlain", "PushSandbox"} => o.d \in PushShapes}

Init == /\ base \in Shapes
        /\ stack = BaseStack(base)
        /\ hist = <<>>

Step(o) == /\ Len(hist) < MaxLen
           /\ Enabled(stack, o)
           /\ stack' = Apply(stack, o)
           /\ hist' = Append(hist, o)
           /\ UNCHANGED base

Next == \E o \in MCOps : Step(o)

Spec == Init /\ [][Next]_vars

(* ---- invariants ---- *)
Inv == StateInv(stack)

\* the history determines the state (what the replay relies on)
RECURSIVE Run(_, _, _)
Run(s, ops, i) == IF i = 0 THEN s ELSE Apply(Run(s, ops, i - 1), ops[i])
HistoryDeterminesState == stack = Run(BaseStack(base), hist, Len(hist))

(* ---- step properties ---- *)
LastOp == hist'[Len(hist')]
PopRestores   == [][LastOp.op = "Pop" => PopRestoresStep(stack, stack')]_vars
SetGlobalLands == [][LastOp.op = "SetGlobal" =>
                       SetGlobalStep(stack, stack', LastOp.key, LastOp.v)]_vars
SetIndexShared == [][LastOp.op = "SetIndex" =>
                       SetIndexStep(stack, stack', LastOp.key, LastOp.v)]_vars
\* a push never changes what lower frames answer
PushTransparent ==
  [][LastOp.op \in {"PushPlain", "PushSandbox", "PushGlobal"} =>
        /\ Rest(stack') = stack
        /\ \A p \in Paths :
             (LastOp.op = "PushGlobal" \/
              (LastOp.op = "PushPlain" /\ p[1] \notin DOMAIN Top(stack').m))
             => ChainTryGet(stack', p) = ChainTryGet(stack, p)]_vars

(* ---- replay records ---- *)
EncMap(m) == [k \in Keys |-> IF k \in DOMAIN m THEN Enc(m[k]) ELSE 0]

ObsTry(f) ==
  [n \in 1..(Len(KeySeq) * 4) |->
     LET k == KeySeq[((n - 1) \div 4) + 1]
         j == (n - 1) % 4
     IN  Enc(ChainTryGet(f, IF j = 0 THEN <<k>> ELSE <<k, SubSeq3[j]>>))]

Obs(f) == [t |-> ObsTry(f),
           r |-> [n \in 1..Len(KeySeq) |-> IF KeySeq[n] \in ChainRoots(f) THEN 1 ELSE 0],
           i |-> [n \in 1..Len(KeySeq) |-> Enc(ChainGetIndex(f, KeySeq[n]))],
           \* root names no layer defines (the pseudo-keys of find.rs among them): optional and failing form, both "nothing"
           u |-> [n \in 1..(2 * Len(Pseudo)) |-> Enc(ChainTryGet(f, <<Pseudo[(n + 1) \div 2]>>))],
           g |-> IF RegsOwner(f) = 1 THEN BaseLen ELSE RegsOwner(f)]

EmitOp(s, o) ==
  CASE o.op \in {"PushPlain", "PushSandbox"} ->
         [op |-> o.op, d |-> EncMap(MapOf(o.d, Len(s) + 1))]
    [] o.op \in {"SetGlobal", "SetIndex"} -> [op |-> o.op, key |-> o.key, v |-> o.v]
    [] OTHER -> [op |-> o.op]

Record ==
  LET b == BaseStack(base)
      n == Len(hist)
  IN [p     |-> "C18",
      base  |-> EncMap(MapOf(base, 3)),
      ops   |-> [i \in 1..n |-> EmitOp(Run(b, hist, i - 1), hist[i])],
      tops  |-> [i \in 1..n |-> Obs(Run(b, hist, i))],
      final |-> [h \in BaseLen..Len(stack) |-> Obs(SubSeq(stack, 1, h))]]

Emit == EmitAll => PrintT(<<"REPLAY", ToJson(Record)>>)

\* state-space only (no history): used for the deeper model-only tier
View == <<base, stack, Len(hist)>>
=============================================================================
