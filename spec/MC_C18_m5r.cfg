SPECIFICATION Spec
CONSTANTS
  Keys = {"a", "b"}
  Vals = {1, 2}
  MaxLen = 5
  EmitAll = FALSE
  PushShapes <- ReducedShapes
INVARIANTS Inv HistoryDeterminesState Emit
PROPERTIES PopRestores SetGlobalLands SetIndexShared PushTransparent
CHECK_DEADLOCK FALSE
VIEW View
