----------------------------- MODULE LiquidArgs ------------------------------
(***************************************************************************)
(* How every stdlib tag and block consumes its argument tokens             *)
(* (crates/lib/src/stdlib/tags and blocks: ParseTag::parse and            *)
(* ParseBlock::parse over parser.rs TagTokenIter and TagToken::expect_..), *)
(* one operator per tag, transcribed branch by branch - including what the *)
(* code does that a grammar would not say: `include` swallows one stray    *)
(* token after an argument, `render` and `cycle` accept a trailing comma,  *)
(* `else` ignores its arguments inside if/unless but not inside for/case.  *)
(* The result is the verdict (ok) and, for accepted tags, the statement    *)
(* LiquidInterp executes; filt = the tag uses filters (LiquidInterp does   *)
(* not evaluate those: such cases are compared on the verdict only).       *)
(***************************************************************************)
EXTENDS LiquidLex

Sig == INSTANCE LiquidFilterSig
\* the first 48 entries of the table are the stdlib; the plugin filters are unknown to ParserBuilder::with_stdlib()
PluginFilters == {"slugify", "pop", "push", "shift", "unshift", "array_to_sentence_string", "pluralize", "date_in_tz"}
FilterOk(f) == \E g \in Sig!Filters : g.n = f.name /\ g.n \notin PluginFilters /\ f.nkw = 0 /\ f.npos >= g.lo /\ f.npos <= g.hi

Has(ts, i)  == i <= Len(ts)
TokS(ts, i) == IF Has(ts, i) THEN ts[i].s ELSE ""                 \* token text, "" = no token (texts are never empty)
\* TagToken::expect_value / expect_identifier / expect_literal / expect_range / expect_filter_chain
IsValue(k)   == k.k = "chain" /\ k.fs = <<>> /\ ~k.big
IsIdent(k)   == k.k = "chain" /\ k.fs = <<>> /\ k.isvar /\ k.x.idx = <<>>
IsLiteral(k) == k.k = "chain" /\ k.fs = <<>> /\ ~k.isvar /\ ~k.big
IsRange(k)   == k.k = "range" /\ ~k.big
ChainOk(k)   == k.k = "chain" /\ ~k.big /\ \A i \in 1..Len(k.fs) : FilterOk(k.fs[i])

Reject == [ok |-> FALSE]
Accept(st) == [ok |-> TRUE, filt |-> FALSE, st |-> st]
NoAttr == [has |-> FALSE]
AttrOf(x) == [has |-> TRUE, x |-> x]
SrcOf(k) == IF k.k = "range" THEN [src |-> "range", lo |-> k.lo, hi |-> k.hi] ELSE [src |-> "expr", x |-> k.x]

(* --------------------------- output expression ------------------------ *)
ArgsOutput(c) == IF ChainOk(c) THEN [ok |-> TRUE, filt |-> c.fs # <<>>, st |-> [t |-> "out", x |-> c.x]] ELSE Reject

(* -------------------- assign, increment, capture ... ------------------ *)
ArgsAssign(ts) ==
  IF Len(ts) = 3 /\ IsIdent(ts[1]) /\ ts[2].s = "=" /\ ChainOk(ts[3])
  THEN [ok |-> TRUE, filt |-> ts[3].fs # <<>>, st |-> [t |-> "assign", var |-> ts[1].x.name, x |-> ts[3].x]]
  ELSE Reject
ArgsIdentOnly(ts, t) == IF Len(ts) = 1 /\ IsIdent(ts[1]) THEN Accept([t |-> t, var |-> ts[1].x.name]) ELSE Reject
ArgsNothing(ts, t)   == IF Len(ts) = 0 THEN Accept([t |-> t]) ELSE Reject

(* ------------------------------- if / unless -------------------------- *)
Ops == {"==", "!=", "<>", "<", ">", "<=", ">=", "contains"}
OpName(s) == IF s = "<>" THEN "!=" ELSE s
\* parse_atom_condition from token i: [ok, c, i = next unread]
Atom(ts, i) ==
  IF ~Has(ts, i) \/ ~IsValue(ts[i]) THEN Reject
  ELSE IF TokS(ts, i + 1) \in Ops
       THEN (IF Has(ts, i + 2) /\ IsValue(ts[i + 2])
             THEN [ok |-> TRUE, c |-> [c |-> "bin", op |-> OpName(ts[i + 1].s), l |-> ts[i].x, r |-> ts[i + 2].x], i |-> i + 3]
             ELSE Reject)
       ELSE [ok |-> TRUE, c |-> [c |-> "truthy", x |-> ts[i].x], i |-> i + 1]
\* parse_conjunction_chain: atom ("and" atom)*
RECURSIVE ConjMore(_, _)
ConjMore(ts, lh) ==
  IF ~lh.ok \/ TokS(ts, lh.i) # "and" THEN lh
  ELSE LET rh == Atom(ts, lh.i + 1) IN
       IF ~rh.ok THEN Reject ELSE ConjMore(ts, [ok |-> TRUE, c |-> [c |-> "and", l |-> lh.c, r |-> rh.c], i |-> rh.i])
Conj(ts, i) == ConjMore(ts, Atom(ts, i))
\* parse_condition: conj ("or" conj)* and nothing else
RECURSIVE DisjMore(_, _)
DisjMore(ts, lh) ==
  IF ~lh.ok \/ ~Has(ts, lh.i) THEN lh
  ELSE IF ts[lh.i].s # "or" THEN Reject
  ELSE LET rh == Conj(ts, lh.i + 1) IN
       IF ~rh.ok THEN Reject ELSE DisjMore(ts, [ok |-> TRUE, c |-> [c |-> "or", l |-> lh.c, r |-> rh.c], i |-> rh.i])
ArgsCond(ts, t) == LET c == DisjMore(ts, Conj(ts, 1)) IN IF c.ok THEN Accept([t |-> t, cond |-> c.c]) ELSE Reject

(* ------------------------------ case / when --------------------------- *)
ArgsCase(ts) == IF Len(ts) = 1 /\ IsValue(ts[1]) THEN Accept([t |-> "case", x |-> ts[1].x]) ELSE Reject
RECURSIVE WhenMore(_, _, _)
WhenMore(ts, i, vals) ==
  IF ~Has(ts, i) THEN [ok |-> TRUE, vals |-> vals]
  ELSE IF ts[i].s \in {"or", ","} /\ Has(ts, i + 1) /\ IsValue(ts[i + 1]) THEN WhenMore(ts, i + 2, Append(vals, ts[i + 1].x))
  ELSE Reject
ArgsWhen(ts) == IF Has(ts, 1) /\ IsValue(ts[1]) THEN WhenMore(ts, 2, <<ts[1].x>>) ELSE Reject

(* ---------------------------- for / tablerow -------------------------- *)
RECURSIVE LoopAttrs(_, _, _, _)
LoopAttrs(ts, i, kind, acc) ==
  IF ~Has(ts, i) THEN [ok |-> TRUE, a |-> acc]
  ELSE IF kind = "for" /\ ts[i].s = "reversed" THEN LoopAttrs(ts, i + 1, kind, [acc EXCEPT !.rev = TRUE])
  ELSE IF ts[i].s \in {"limit", "offset"} \cup (IF kind = "tablerow" THEN {"cols"} ELSE {})
       THEN (IF TokS(ts, i + 1) = ":" /\ Has(ts, i + 2) /\ IsValue(ts[i + 2])
             THEN LoopAttrs(ts, i + 3, kind,
                    CASE ts[i].s = "limit"  -> [acc EXCEPT !.lim = AttrOf(ts[i + 2].x)]
                      [] ts[i].s = "offset" -> [acc EXCEPT !.off = AttrOf(ts[i + 2].x)]
                      [] OTHER              -> [acc EXCEPT !.cols = AttrOf(ts[i + 2].x)])
             ELSE Reject)
  ELSE Reject
ArgsLoop(ts, kind) ==
  IF Len(ts) >= 3 /\ IsIdent(ts[1]) /\ ts[2].s = "in" /\ (IsValue(ts[3]) \/ IsRange(ts[3]))
  THEN LET r == LoopAttrs(ts, 4, kind, [lim |-> NoAttr, off |-> NoAttr, cols |-> NoAttr, rev |-> FALSE]) IN
       IF ~r.ok THEN Reject
       ELSE IF kind = "for"
            THEN Accept([t |-> "for", var |-> ts[1].x.name, src |-> SrcOf(ts[3]), lim |-> r.a.lim, off |-> r.a.off, rev |-> r.a.rev])
            ELSE Accept([t |-> "tablerow", var |-> ts[1].x.name, src |-> SrcOf(ts[3]), lim |-> r.a.lim, off |-> r.a.off, cols |-> r.a.cols])
  ELSE Reject

(* -------------------------------- cycle ------------------------------- *)
\* values from token i on: value ("," value)* with an optional trailing comma
RECURSIVE CycleVals(_, _, _)
CycleVals(ts, i, vals) ==
  IF ~Has(ts, i) THEN [ok |-> TRUE, vals |-> vals]
  ELSE IF ~IsValue(ts[i]) THEN Reject
  ELSE IF ~Has(ts, i + 1) THEN [ok |-> TRUE, vals |-> Append(vals, ts[i].x)]
  ELSE IF ts[i + 1].s = "," THEN CycleVals(ts, i + 2, Append(vals, ts[i].x))
  ELSE Reject
ArgsCycle(ts) ==
  IF ~Has(ts, 1) THEN Reject
  ELSE LET second == TokS(ts, 2) IN
       IF second = ":"
       THEN (IF IsIdent(ts[1]) \/ IsLiteral(ts[1])
             THEN LET name == IF IsIdent(ts[1]) THEN ts[1].x.name ELSE ToStr(ts[1].x.v)
                      r == CycleVals(ts, 3, <<>>)
                  IN IF r.ok /\ r.vals # <<>>
                     THEN Accept([t |-> "cycle", key |-> IF name = "" THEN [named |-> FALSE, g |-> r.vals] ELSE [named |-> TRUE, g |-> name],
                                  vals |-> r.vals])
                     ELSE Reject
             ELSE Reject)
       ELSE IF second \in {",", ""}
       THEN (IF IsValue(ts[1])
             THEN LET r == CycleVals(ts, 3, <<ts[1].x>>) IN
                  IF r.ok THEN Accept([t |-> "cycle", key |-> [named |-> FALSE, g |-> r.vals], vals |-> r.vals]) ELSE Reject
             ELSE Reject)
       ELSE Reject

(* ------------------------------- include ------------------------------ *)
\* (ident ":" value)* ; after each argument one more token is read: a comma continues, ANY OTHER TOKEN IS DROPPED and ends
\* the list (`if let Ok(comma) = arguments.expect_next("")` consumes it); whatever follows that token is an error
RECURSIVE InclArgs(_, _, _)
InclArgs(ts, i, args) ==
  IF ~Has(ts, i) THEN [ok |-> TRUE, args |-> args]
  ELSE IF IsIdent(ts[i]) /\ TokS(ts, i + 1) = ":" /\ Has(ts, i + 2) /\ IsValue(ts[i + 2])
       THEN LET a == Append(args, [k |-> ts[i].x.name, x |-> ts[i + 2].x]) IN
            IF ~Has(ts, i + 3) THEN [ok |-> TRUE, args |-> a]
            ELSE IF ts[i + 3].s = "," THEN InclArgs(ts, i + 4, a)
            ELSE IF Has(ts, i + 4) THEN Reject ELSE [ok |-> TRUE, args |-> a]
       ELSE Reject
ArgsInclude(ts) ==
  IF Has(ts, 1) /\ IsValue(ts[1])
  THEN LET r == InclArgs(ts, 2, <<>>) IN IF r.ok THEN Accept([t |-> "include", name |-> ts[1].x, args |-> r.args]) ELSE Reject
  ELSE Reject

(* -------------------------------- render ------------------------------ *)
\* ("," (ident ":" value)?)* from the token at i (which must be a comma); a trailing comma is accepted
RECURSIVE RenderArgs(_, _, _)
RenderArgs(ts, i, args) ==
  IF ~Has(ts, i) THEN [ok |-> TRUE, args |-> args]
  ELSE IF ts[i].s # "," THEN Reject
  ELSE IF ~Has(ts, i + 1) THEN [ok |-> TRUE, args |-> args]
  ELSE IF IsIdent(ts[i + 1]) /\ TokS(ts, i + 2) = ":" /\ Has(ts, i + 3) /\ IsValue(ts[i + 3])
       THEN RenderArgs(ts, i + 4, Append(args, [k |-> ts[i + 1].x.name, x |-> ts[i + 3].x]))
  ELSE Reject
ArgsRender(ts) ==
  IF ~(Has(ts, 1) /\ IsValue(ts[1])) THEN Reject
  ELSE IF TokS(ts, 2) = "with"
       THEN (IF Has(ts, 3) /\ IsValue(ts[3]) /\ TokS(ts, 4) = "as" /\ Has(ts, 5) /\ IsIdent(ts[5])
             THEN LET r == RenderArgs(ts, 6, <<>>) IN
                  IF r.ok THEN Accept([t |-> "render", name |-> ts[1].x, mode |-> "with", with |-> ts[3].x, as |-> ts[5].x.name, args |-> r.args])
                  ELSE Reject
             ELSE Reject)
  ELSE IF TokS(ts, 2) = "for"
       THEN (IF Has(ts, 3) /\ (IsValue(ts[3]) \/ IsRange(ts[3])) /\ TokS(ts, 4) = "as" /\ Has(ts, 5) /\ IsIdent(ts[5])
             THEN LET r == RenderArgs(ts, 6, <<>>) IN
                  IF r.ok THEN Accept([t |-> "render", name |-> ts[1].x, mode |-> "for", src |-> SrcOf(ts[3]), as |-> ts[5].x.name, args |-> r.args])
                  ELSE Reject
             ELSE Reject)
  ELSE LET r == RenderArgs(ts, 2, <<>>) IN
       IF r.ok THEN Accept([t |-> "render", name |-> ts[1].x, mode |-> "plain", args |-> r.args]) ELSE Reject

(* ------------------------- dispatch by tag name ----------------------- *)
\* the header of a block is returned without its body; the caller supplies it
ArgsOf(name, ts) ==
  CASE name = "assign" -> ArgsAssign(ts)
    [] name = "increment" -> ArgsIdentOnly(ts, "inc")
    [] name = "decrement" -> ArgsIdentOnly(ts, "dec")
    [] name = "capture" -> ArgsIdentOnly(ts, "capture")
    [] name \in {"break", "continue", "ifchanged", "comment", "raw"} -> ArgsNothing(ts, name)
    [] name \in {"if", "unless"} -> ArgsCond(ts, name)
    [] name = "case" -> ArgsCase(ts)
    [] name \in {"for", "tablerow"} -> ArgsLoop(ts, name)
    [] name = "cycle" -> ArgsCycle(ts)
    [] name = "include" -> ArgsInclude(ts)
    [] name = "render" -> ArgsRender(ts)
    [] OTHER -> Reject                       \* unknown tag (end tags and else / when / elsif are the enclosing block's business)
=============================================================================
