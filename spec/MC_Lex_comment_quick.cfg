SPECIFICATION LSpec
CONSTANTS
  MaxPieces = 0
  MaxPhrase = 0
  MaxTmpl = 4
  MaxDeep = 0
  Hosts = {"tmpl_comment"}
  EmitAll = TRUE
INVARIANTS Emit
CHECK_DEADLOCK FALSE
