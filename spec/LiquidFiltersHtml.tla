-------------------------- MODULE LiquidFiltersHtml --------------------------
(***************************************************************************)
(* escape, escape_once, strip_html (filters/html.rs) and url_encode,       *)
(* url_decode (filters/url.rs) on sequences of Unicode scalar values.      *)
(***************************************************************************)
EXTENDS LiquidChars, Integers, TLC

LT == 60  GT == 62  AMP == 38  QUOT == 34  APOS == 39  SEMI == 59  HASH == 35  PCT == 37  PLUS == 43
Ent(c) == CASE c = LT   -> <<AMP, 108, 116, SEMI>>            \* &lt;
            [] c = GT   -> <<AMP, 103, 116, SEMI>>            \* &gt;
            [] c = APOS -> <<AMP, HASH, 51, 57, SEMI>>        \* &#39;
            [] c = QUOT -> <<AMP, 113, 117, 111, 116, SEMI>>  \* &quot;
            [] c = AMP  -> <<AMP, 97, 109, 112, SEMI>>        \* &amp;
            [] OTHER    -> <<c>>
Specials == {LT, GT, APOS, QUOT, AMP}
Entities == {Ent(c) : c \in Specials}

Escape(s) == Flatten([i \in 1..Len(s) |-> Ent(s[i])])

StartsWithAt(s, i, p) == i + Len(p) - 1 <= Len(s) /\ SubSeq(s, i, i + Len(p) - 1) = p
EntityAt(s, i) == \E e \in Entities : StartsWithAt(s, i, e)
EntityLenAt(s, i) == Len(CHOOSE e \in Entities : StartsWithAt(s, i, e))

\* escape_once: an ampersand that already starts one of the five entities is kept
RECURSIVE EscapeOnceFrom(_, _)
EscapeOnceFrom(s, i) ==
  IF i > Len(s) THEN <<>>
  ELSE IF s[i] = AMP /\ EntityAt(s, i)
       THEN SubSeq(s, i, i + EntityLenAt(s, i) - 1) \o EscapeOnceFrom(s, i + EntityLenAt(s, i))
       ELSE Ent(s[i]) \o EscapeOnceFrom(s, i + 1)
EscapeOnce(s) == EscapeOnceFrom(s, 1)

\* replacing the five entities back
RECURSIVE UnescapeFrom(_, _)
UnescapeFrom(s, i) ==
  IF i > Len(s) THEN <<>>
  ELSE IF s[i] = AMP /\ EntityAt(s, i)
       THEN LET e == CHOOSE x \in Entities : StartsWithAt(s, i, x) IN
            <<CHOOSE c \in Specials : Ent(c) = e>> \o UnescapeFrom(s, i + Len(e))
       ELSE <<s[i]>> \o UnescapeFrom(s, i + 1)
Unescape(s) == UnescapeFrom(s, 1)

\* C16: no special character except as part of a produced entity
OutputSafe(s) == \A i \in 1..Len(s) :
                   /\ s[i] \notin {LT, GT, APOS, QUOT}
                   /\ s[i] = AMP => EntityAt(s, i)

(* ------------------------------ strip_html ---------------------------- *)
LowerC(c) == IF c >= 65 /\ c <= 90 THEN c + 32 ELSE c
CIStartsWithAt(s, i, p) == i + Len(p) - 1 <= Len(s) /\ \A k \in 1..Len(p) : LowerC(s[i + k - 1]) = p[k]
\* first position >= i where p occurs (case-insensitive), or 0
RECURSIVE CIFind(_, _, _)
CIFind(s, p, i) == IF i + Len(p) - 1 > Len(s) THEN 0 ELSE IF CIStartsWithAt(s, i, p) THEN i ELSE CIFind(s, p, i + 1)
\* one regex pass  (?is)OPEN.*?CLOSE  replaced by nothing: leftmost, shortest, non-overlapping
RECURSIVE RemoveSpans(_, _, _, _)
RemoveSpans(s, open, close, i) ==
  IF i > Len(s) THEN <<>>
  ELSE IF CIStartsWithAt(s, i, open)
       THEN LET j == CIFind(s, close, i + Len(open)) IN
            IF j = 0 THEN SubSeq(s, i, Len(s))          \* no closer anywhere: nothing more can match
            ELSE RemoveSpans(s, open, close, j + Len(close))
       ELSE <<s[i]>> \o RemoveSpans(s, open, close, i + 1)
ScriptO == <<60, 115, 99, 114, 105, 112, 116>>          \* <script
ScriptC == <<60, 47, 115, 99, 114, 105, 112, 116, 62>>  \* </script>
StyleO  == <<60, 115, 116, 121, 108, 101>>              \* <style
StyleC  == <<60, 47, 115, 116, 121, 108, 101, 62>>      \* </style>
CommO   == <<60, 33, 45, 45>>                           \* <!--
CommC   == <<45, 45, 62>>                               \* -->
StripHtml(s) ==
  RemoveSpans(RemoveSpans(RemoveSpans(RemoveSpans(s, ScriptO, ScriptC, 1), StyleO, StyleC, 1), CommO, CommC, 1),
              <<LT>>, <<GT>>, 1)
NoCompleteTag(s) == ~\E i, j \in 1..Len(s) : i < j /\ s[i] = LT /\ s[j] = GT

(* -------------------------------- URL --------------------------------- *)
Utf8(c) == IF c < 128 THEN <<c>>
           ELSE IF c < 2048 THEN <<192 + (c \div 64), 128 + (c % 64)>>
           ELSE IF c < 65536 THEN <<224 + (c \div 4096), 128 + ((c \div 64) % 64), 128 + (c % 64)>>
           ELSE <<240 + (c \div 262144), 128 + ((c \div 4096) % 64), 128 + ((c \div 64) % 64), 128 + (c % 64)>>
Bytes(s) == Flatten([i \in 1..Len(s) |-> Utf8(s[i])])

HexDigit(n) == IF n < 10 THEN 48 + n ELSE 55 + n          \* upper case
Unreserved(b) == (b >= 48 /\ b <= 57) \/ (b >= 65 /\ b <= 90) \/ (b >= 97 /\ b <= 122) \/ b \in {45, 46, 95}
UrlEncode(s) == LET bs == Bytes(s) IN
  Flatten([i \in 1..Len(bs) |-> IF Unreserved(bs[i]) THEN <<bs[i]>>
                                 ELSE <<PCT, HexDigit(bs[i] \div 16), HexDigit(bs[i] % 16)>>])
EncodedCharset(s) == \A i \in 1..Len(s) : Unreserved(s[i]) \/ s[i] = PCT

IsHex(c) == (c >= 48 /\ c <= 57) \/ (c >= 65 /\ c <= 70) \/ (c >= 97 /\ c <= 102)
HexVal(c) == IF c <= 57 THEN c - 48 ELSE IF c <= 70 THEN c - 55 ELSE c - 87
\* percent-decoding over bytes; an incomplete or non-hex escape is copied as it is
RECURSIVE PctDecode(_, _)
PctDecode(b, i) ==
  IF i > Len(b) THEN <<>>
  ELSE IF b[i] = PCT /\ i + 2 <= Len(b) /\ IsHex(b[i + 1]) /\ IsHex(b[i + 2])
       THEN <<16 * HexVal(b[i + 1]) + HexVal(b[i + 2])>> \o PctDecode(b, i + 3)
       ELSE <<b[i]>> \o PctDecode(b, i + 1)

Cont(b) == b >= 128 /\ b <= 191
\* strict UTF-8 decoding: [ok, s]
RECURSIVE Utf8Decode(_, _)
Utf8Decode(b, i) ==
  IF i > Len(b) THEN [ok |-> TRUE, s |-> <<>>]
  ELSE LET b0 == b[i]
           n  == IF b0 < 128 THEN 1 ELSE IF b0 >= 194 /\ b0 <= 223 THEN 2
                 ELSE IF b0 >= 224 /\ b0 <= 239 THEN 3 ELSE IF b0 >= 240 /\ b0 <= 244 THEN 4 ELSE 0
       IN IF n = 0 \/ i + n - 1 > Len(b) \/ (\E k \in 1..(n - 1) : ~Cont(b[i + k])) THEN [ok |-> FALSE, s |-> <<>>]
          ELSE LET c == CASE n = 1 -> b0
                          [] n = 2 -> (b0 - 192) * 64 + (b[i + 1] - 128)
                          [] n = 3 -> (b0 - 224) * 4096 + (b[i + 1] - 128) * 64 + (b[i + 2] - 128)
                          [] n = 4 -> (b0 - 240) * 262144 + (b[i + 1] - 128) * 4096 + (b[i + 2] - 128) * 64 + (b[i + 3] - 128)
                   bad == (n = 3 /\ (c < 2048 \/ (c >= 55296 /\ c <= 57343))) \/ (n = 4 /\ (c < 65536 \/ c > 1114111))
               IN IF bad THEN [ok |-> FALSE, s |-> <<>>]
                  ELSE LET r == Utf8Decode(b, i + n) IN
                       IF r.ok THEN [ok |-> TRUE, s |-> <<c>> \o r.s] ELSE r
UrlDecode(s) ==
  LET plus == [i \in 1..Len(s) |-> IF s[i] = PLUS THEN SP ELSE s[i]] IN
  Utf8Decode(PctDecode(Bytes(plus), 1), 1)
=============================================================================
