------------------------------ MODULE MC_C03 ------------------------------
(* Bounded instance of LiquidText for property C03: Text-Markup-Text       *)
(* triples with every whitespace run up to MaxRun over {space, tab, LF,    *)
(* CR} on either side, every combination of trim markers, 0..MaxPad        *)
(* spaces inside the delimiters; if / raw / comment blocks with all 16     *)
(* marker combinations and bodies that look like markup.                   *)
EXTENDS LiquidText, Json, TLC

CONSTANTS MaxRun, MaxPad, WideCores, EmitAll

Ws == {SP, TAB, LF, CR}
RECURSIVE Runs(_)
Runs(n) == IF n = 0 THEN {<<>>} ELSE Runs(n - 1) \cup {Append(r, w) : r \in {q \in Runs(n - 1) : Len(q) = n - 1}, w \in Ws}

A_ == <<97>>  Eacute == <<233>>  RB == <<125>>  PCT == <<37>>  QUOTE == <<39>>  Emoji == <<128512>>
\* characters that look like whitespace but are not what a trim marker removes
NBSP_ == <<160>>  FF_ == <<12>>  VT_ == <<11>>  IDSP == <<12288>>  EMSP == <<8195>>  NEL == <<133>>
CoresAll == {<<>>, A_, Eacute, RB, PCT, QUOTE, Emoji, NBSP_, FF_, IDSP, VT_, EMSP, NEL}
CoresFew == {<<>>, A_}

T(c) == [t |-> "text", c |-> c]
Lefts(cores, n)  == {c \o r : c \in cores, r \in Runs(n)}
Rights(cores, n) == {r \o c : c \in cores, r \in Runs(n)}

Markups ==
  {[t |-> "out", tl |-> a, tr |-> b, pad |-> p] : a \in BOOLEAN, b \in BOOLEAN, p \in 0..MaxPad} \cup
  {[t |-> "tag", tl |-> a, tr |-> b, pad |-> p] : a \in BOOLEAN, b \in BOOLEAN, p \in 0..MaxPad}

\* cases are produced in two steps (seed, then case) so that TLC's workers share the enumeration
TripleSeeds == {[sd |-> "m", m |-> m] : m \in Markups} \cup {[sd |-> "two", m1 |-> m] : m \in {q \in Markups : q.pad = 1}} \cup
               {[sd |-> "plain", c |-> c] : c \in CoresAll}
TriplesOf(seed) ==
  CASE seed.sd = "m" ->
         {<<T(l), seed.m, T(r)>> : l \in Lefts(CoresAll, 1), r \in Rights(CoresAll, 1)} \cup
         (IF seed.m.pad = 1 THEN {<<T(l), seed.m, T(r)>> : l \in Lefts(CoresFew, MaxRun), r \in Rights(CoresFew, MaxRun)} ELSE {}) \cup
         (IF WideCores /\ seed.m.pad = 1 /\ seed.m.tl /\ seed.m.tr
          THEN {<<T(l), seed.m, T(r)>> : l \in Lefts(CoresAll, MaxRun), r \in Rights(CoresFew, 1)} ELSE {})
    [] seed.sd = "two" ->
         {<<T(A_ \o <<SP>>), seed.m1, T(mid), m2, T(<<LF>> \o A_)>> : mid \in Runs(2), m2 \in {q \in Markups : q.pad = 1}}
    [] seed.sd = "plain" -> {<<T(seed.c \o r \o d)>> : r \in Runs(MaxRun), d \in CoresAll}

(* ---- blocks ---- *)
S(str) == str
IfBodies  == {<<>>, <<98>>, <<SP, 98, SP>>, <<TAB, 98, LF>>, <<SP>>, <<LF, CR, LF>>, <<TAB, TAB>>,
              <<160, 98, 160>>, <<12, 98, 12288>>, <<SP, 160, SP>>, <<11, 133, 8195>>}
\* raw bodies: things that look like markup, unterminated markup, trimming tags
RawBodies == IfBodies \cup
  { <<123,123, 32, 121, 32, 125,125>>,            \* {{ y }}
    <<123,37, 32, 105,102, 32, 37,125>>,          \* {% if %}
    <<123,123, 32, 120>>,                         \* {{ x       (unterminated)
    <<123,37>>,                                   \* {%         (unterminated)
    <<32, 123,37,45, 32, 97,115,115,105,103,110, 32, 113, 32, 61, 32, 49, 32, 45,37,125, 32>>,   \*  {%- assign q = 1 -%}
    <<125,125>>, <<37,125>>, <<123>>,
    <<123,37, 32, 114,97,119, 32, 37,125>> }      \* {% raw %}
\* comment bodies: text, invalid output tag, side-effecting markup, nested comment
CommentBodies == IfBodies \cup
  { <<116,101,120,116>>,
    <<123,123, 32, 124, 32, 125,125>>,                                        \* {{ | }}   (invalid)
    <<123,37, 32, 97,115,115,105,103,110, 32, 115, 32, 61, 32, 49, 32, 37,125>>,   \* {% assign s = 1 %}
    <<123,37, 32, 105,110,99,114,101,109,101,110,116, 32, 99, 32, 37,125>>,       \* {% increment c %}
    <<123,37, 32, 99,111,109,109,101,110,116, 32, 37,125, 105,110, 123,37, 32, 101,110,100,99,111,109,109,101,110,116, 32, 37,125>>,
    <<123,37, 32, 105,102, 32, 116,114,117,101, 32, 37,125, 120, 123,37, 32, 101,110,100,105,102, 32, 37,125>>,   \* {% if true %}x{% endif %}
    <<32, 123,123, 32, 39,118,39, 32, 125,125, 32>> }                            \*  {{ 'v' }}
Bodies(kind) == CASE kind = "if" -> IfBodies [] kind = "raw" -> RawBodies [] kind = "comment" -> CommentBodies
Outer == {<<>>, A_ \o <<SP>>, <<TAB>>, A_ \o <<LF, TAB>>}
OuterR == {<<>>, <<SP>> \o A_, <<TAB>>, <<CR, LF>> \o A_}
\* probe appended after every block program: shows whether a comment had side effects
Probe == <<123,37, 32, 105,102, 32, 115, 32, 37,125, 83, 123,37, 32, 101,110,100,105,102, 32, 37,125,     \* {% if s %}S{% endif %}
           123,37, 32, 105,110,99,114,101,109,101,110,116, 32, 99, 32, 37,125>>                          \* {% increment c %}
BlockSeeds == {[sd |-> "block", kind |-> kd, a |-> a, b |-> b, c |-> c, d |-> d] :
                 kd \in {"if", "raw", "comment"}, a \in BOOLEAN, b \in BOOLEAN, c \in BOOLEAN, d \in BOOLEAN}
BlocksOf(seed) ==
  {<<T(l), [t |-> "block", kind |-> seed.kind, tl1 |-> seed.a, tr1 |-> seed.b, tl2 |-> seed.c, tr2 |-> seed.d, body |-> bd], T(r)>> :
      l \in Outer, r \in OuterR, bd \in Bodies(seed.kind)}

IsBlockCase(t) == \E i \in 1..Len(t) : t[i].t = "block"
CasesOf(seed) == IF seed.sd = "block" THEN BlocksOf(seed) ELSE TriplesOf(seed)

VARIABLE st
Init == st \in TripleSeeds \cup BlockSeeds
Next == st.sd # "case" /\ \E t \in CasesOf(st) : st' = [sd |-> "case", t |-> t]
Spec == Init /\ [][Next]_st
IsCase == st.sd = "case"
tmpl == st.t

Inv == IsCase =>
       /\ IdentityOnPlainText(tmpl)
       /\ GrammarLayerRefinesExpected(tmpl)
       /\ (\A i \in 1..Len(tmpl) : tmpl[i].t # "block") => TextNonWs(tmpl) = NonWs(SelectSeq(Expected(tmpl), LAMBDA c : c # 88))
                                                          \/ \E i \in 1..Len(tmpl) : tmpl[i].t = "text" /\ 88 \in {tmpl[i].c[j] : j \in 1..Len(tmpl[i].c)}

Record ==
  [p |-> "C03", kind |-> "source",
   src |-> Source(tmpl) \o (IF IsBlockCase(tmpl) THEN Probe ELSE <<>>), data |-> <<>>,
   expect |-> [ok |-> TRUE, out |-> Expected(tmpl) \o (IF IsBlockCase(tmpl) THEN <<48>> ELSE <<>>)],
   nt |-> HasMarkup(tmpl)]
Emit == (EmitAll /\ IsCase) => PrintT(<<"REPLAY", ToJson(Record)>>)
=============================================================================
