SPECIFICATION Spec
CONSTANTS
  MaxLen = 4
  MaxObjLen = 3
  EmitAll = TRUE
INVARIANTS Laws Emit
CHECK_DEADLOCK FALSE
