SPECIFICATION TraceSpec
INVARIANT AcceptedIsPrefix
PROPERTY NothingAfterFailure
POSTCONDITION TraceAccepted
CHECK_DEADLOCK FALSE
