-------------------------- MODULE LiquidFiltersArr --------------------------
(***************************************************************************)
(* Array filters (crates/lib/src/stdlib/filters/array.rs, slice.rs) over   *)
(* the value universe of LiquidValues.                                     *)
(* Implementation-shaped: sort / sort_natural as a stable insertion sort   *)
(* with the nil-last comparator.  Property layer: permutation, sortedness, *)
(* stability, idempotence; uniq / compact / concat / map / where / first / *)
(* last / size / slice / join / reverse by their contract.                 *)
(***************************************************************************)
EXTENDS LiquidValues

IsNil(v) == v.k = "nil"
\* nil_safe_compare: nil sorts last; otherwise the value order ("none" = incomparable)
NilSafeCmp(a, b) ==
  IF IsNil(a) /\ IsNil(b) THEN "eq" ELSE IF IsNil(a) THEN "gt" ELSE IF IsNil(b) THEN "lt" ELSE ValueCmp(a, b)

\* key of sort_natural: lower-cased printed form, nil last
UpperLetters == "ABCDEFGHIJKLMNOPQRSTUVWXYZ"
LowerLetters == "abcdefghijklmnopqrstuvwxyz"
LowerChar(ch) == IF \E i \in 1..26 : CharAt(UpperLetters, i) = ch
                 THEN CharAt(LowerLetters, CHOOSE i \in 1..26 : CharAt(UpperLetters, i) = ch) ELSE ch
RECURSIVE LowerStr(_)
LowerStr(s) == IF s = "" THEN "" ELSE LowerChar(CharAt(s, 1)) \o LowerStr(SubSeq(s, 2, Len(s)))
NaturalCmp(a, b) ==
  IF IsNil(a) /\ IsNil(b) THEN "eq" ELSE IF IsNil(a) THEN "gt" ELSE IF IsNil(b) THEN "lt"
  ELSE StrCmp(LowerStr(ToStr(a)), LowerStr(ToStr(b)))

\* the value a sort compares: the element itself, or its property (missing = nil)
SortKey(v, prop) == IF prop = "" THEN v
                    ELSE IF v.k = "obj" /\ prop \in DOMAIN v.o THEN v.o[prop] ELSE NilV
Cmp(mode, prop, a, b) ==
  IF mode = "natural" THEN NaturalCmp(SortKey(a, prop), SortKey(b, prop)) ELSE NilSafeCmp(SortKey(a, prop), SortKey(b, prop))

\* stable insertion sort; an incomparable pair counts as equal (unwrap_or(Equal))
RECURSIVE InsertSorted(_, _, _, _)
InsertSorted(sorted, x, mode, prop) ==     \* x goes after every element that is not greater than it
  IF sorted = <<>> THEN <<x>>
  ELSE IF Cmp(mode, prop, sorted[Len(sorted)], x) = "gt"
       THEN Append(InsertSorted(SubSeq(sorted, 1, Len(sorted) - 1), x, mode, prop), sorted[Len(sorted)])
       ELSE Append(sorted, x)
RECURSIVE SortFrom(_, _, _, _)
SortFrom(a, i, mode, prop) == IF i = 0 THEN <<>> ELSE InsertSorted(SortFrom(a, i - 1, mode, prop), a[i], mode, prop)
Sort(a, mode, prop) == SortFrom(a, Len(a), mode, prop)

(* ---- property layer ---- *)
\* multiset equality (structural)
Count(a, v) == Cardinality({i \in 1..Len(a) : a[i] = v})
IsPermutation(a, b) == Len(a) = Len(b) /\ \A i \in 1..Len(a) : Count(a, a[i]) = Count(b, a[i])
MutuallyComparable(a, mode, prop) ==
  \A i, j \in 1..Len(a) : Cmp(mode, prop, a[i], a[j]) # "none"
Sorted(a, mode, prop) == \A i \in 1..(Len(a) - 1) : Cmp(mode, prop, a[i], a[i + 1]) \in {"lt", "eq"}
\* stability: elements that compare equal keep their input order.  b is a
\* stable sort of a iff it is the sorted order of the pairs (element, input position)
StableSortOf(b, a, mode, prop) ==
  /\ IsPermutation(a, b) /\ Sorted(b, mode, prop)
  /\ \A v, w \in {a[i] : i \in 1..Len(a)} :
        (v # w /\ Cmp(mode, prop, v, w) = "eq") =>
           \* the relative order of the occurrences of v and w is the same in a and b
           LET Proj(s) == SelectSeq(s, LAMBDA x : x = v \/ x = w) IN Proj(a) = Proj(b)

Reverse(a) == [i \in 1..Len(a) |-> a[Len(a) - i + 1]]
\* uniq: drop exactly the elements equal to an earlier kept one
RECURSIVE UniqFrom(_, _, _)
UniqFrom(a, i, kept) ==
  IF i > Len(a) THEN kept
  ELSE IF \E j \in 1..Len(kept) : ValueEq(kept[j], a[i]) THEN UniqFrom(a, i + 1, kept)
  ELSE UniqFrom(a, i + 1, Append(kept, a[i]))
Uniq(a) == UniqFrom(a, 1, <<>>)
Compact(a) == SelectSeq(a, LAMBDA v : ~IsNil(v))
CompactBy(a, prop) == SelectSeq(a, LAMBDA v : v.k = "obj" /\ prop \in DOMAIN v.o /\ ~IsNil(v.o[prop]))
HasProp(v, prop) == v.k = "obj" /\ prop \in DOMAIN v.o
Map(a, prop) == LET h == SelectSeq(a, LAMBDA v : HasProp(v, prop)) IN [i \in 1..Len(h) |-> h[i].o[prop]]
WhereTruthy(a, prop) == SelectSeq(a, LAMBDA v : HasProp(v, prop) /\ Truthy(v.o[prop]))
WhereEq(a, prop, target) == SelectSeq(a, LAMBDA v : HasProp(v, prop) /\ ValueEq(target, v.o[prop]))
AllObjects(a) == \A i \in 1..Len(a) : a[i].k = "obj"

JoinStr(a, sep) == LET RECURSIVE J(_)
                       J(i) == IF i > Len(a) THEN "" ELSE (IF i > 1 THEN sep ELSE "") \o ToStr(a[i]) \o J(i + 1)
                   IN J(1)
\* "x", "x, and y", "x, y, and z": the connector goes before the last element, after a comma
Sentence(a, conn) == LET RECURSIVE J(_)
                         J(i) == IF i > Len(a) THEN ""
                                 ELSE (IF i = 1 THEN "" ELSE IF i = Len(a) THEN ", " \o conn \o " " ELSE ", ") \o ToStr(a[i]) \o J(i + 1)
                     IN J(1)
SliceArr(a, off, len) ==
  LET n  == Len(a)
      o1 == IF off > n THEN n ELSE off
      o2 == IF o1 < 0 THEN o1 + n ELSE o1
  IN IF o2 < 0 THEN <<>> ELSE SubSeq(a, o2 + 1, IF o2 + len > n THEN n ELSE o2 + len)

ValR(v) == [val |-> v]
ErrR == [err |-> TRUE]
\* [n: filter name, a: argument values] applied to an array value
ApplyArr(f, a) ==
  CASE f.n = "sort" /\ f.a = <<>> ->
         IF MutuallyComparable(a, "sort", "") THEN ValR(ArrV(Sort(a, "sort", ""))) ELSE [perm |-> a]
    [] f.n = "sort" ->
         IF ~AllObjects(a) THEN ErrR
         ELSE IF MutuallyComparable(a, "sort", f.a[1].s) THEN ValR(ArrV(Sort(a, "sort", f.a[1].s))) ELSE [perm |-> a]
    [] f.n = "sort_natural" /\ f.a = <<>> -> ValR(ArrV(Sort(a, "natural", "")))
    [] f.n = "sort_natural" -> IF ~AllObjects(a) THEN ErrR ELSE ValR(ArrV(Sort(a, "natural", f.a[1].s)))
    [] f.n = "reverse" -> ValR(ArrV(Reverse(a)))
    [] f.n = "uniq" -> ValR(ArrV(Uniq(a)))
    [] f.n = "compact" /\ f.a = <<>> -> ValR(ArrV(Compact(a)))
    [] f.n = "compact" -> IF ~AllObjects(a) THEN ErrR ELSE ValR(ArrV(CompactBy(a, f.a[1].s)))
    [] f.n = "concat" -> IF f.a[1].k = "arr" THEN ValR(ArrV(a \o f.a[1].a)) ELSE ErrR
    [] f.n = "map" -> ValR(ArrV(Map(a, f.a[1].s)))
    [] f.n = "where" -> IF ~AllObjects(a) THEN ValR(NilV)
                        ELSE IF Len(f.a) = 1 THEN ValR(ArrV(WhereTruthy(a, f.a[1].s)))
                        ELSE ValR(ArrV(WhereEq(a, f.a[1].s, f.a[2])))
    [] f.n = "first" -> ValR(IF a = <<>> THEN NilV ELSE a[1])
    [] f.n = "last" -> ValR(IF a = <<>> THEN NilV ELSE a[Len(a)])
    [] f.n = "size" -> ValR(IntV(Len(a)))
    [] f.n = "join" -> ValR(StrV(JoinStr(a, f.a[1].s)))
    [] f.n = "slice" -> IF f.a[2].n < 1 THEN ErrR ELSE ValR(ArrV(SliceArr(a, f.a[1].n, f.a[2].n)))
    \* the jekyll plugin filters on arrays (crates/lib/src/jekyll/array.rs)
    [] f.n = "push" -> ValR(ArrV(Append(a, f.a[1])))
    [] f.n = "unshift" -> ValR(ArrV(<<f.a[1]>> \o a))
    [] f.n = "pop" -> ValR(ArrV(IF a = <<>> THEN <<>> ELSE SubSeq(a, 1, Len(a) - 1)))
    [] f.n = "shift" -> ValR(ArrV(IF a = <<>> THEN <<>> ELSE SubSeq(a, 2, Len(a))))
    [] f.n = "array_to_sentence_string" -> ValR(StrV(Sentence(a, IF f.a = <<>> THEN "and" ELSE f.a[1].s)))
=============================================================================
