SPECIFICATION MCSpec
CONSTANTS
  FKeys = {"a", "b"}
  MaxF = 5
INVARIANTS FInv ChainProgress OneIndexFrame
CHECK_DEADLOCK FALSE
