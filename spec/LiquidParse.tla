----------------------------- MODULE LiquidParse -----------------------------
(***************************************************************************)
(* From a whole template text to the program LiquidInterp runs:            *)
(*   1. the element scan of grammar.pest LaxLiquidFile (Expression | Tag | *)
(*      Raw | InvalidLiquid), including the trim-marker forms, which the   *)
(*      grammar implements by making the blanks part of the element;       *)
(*   2. the block protocol of parser.rs TagBlock and of every stdlib block *)
(*      (shared cursor, end tag without arguments, else / elsif / when     *)
(*      handled by the enclosing block only), on top of LiquidArgs.        *)
(* raw takes the source text between its tags (TagBlock::escape_liquid);   *)
(* comment skips elements but still lets every tag inside parse itself,    *)
(* ignoring the error - a block opener with a valid header inside a        *)
(* comment therefore moves the shared cursor, which the properties leave   *)
(* unspecified: such templates are `unsupported` here.                     *)
(***************************************************************************)
EXTENDS LiquidArgs

(* ------------------------------ element scan -------------------------- *)
TagStartAt(t, p)  == StartsWith(t, SkipWS(t, p), "{%-") \/ StartsWith(t, p, "{%")
ExprStartAt(t, p) == StartsWith(t, SkipWS(t, p), "{{-") \/ StartsWith(t, p, "{{")

\* the blanks before "{%-" / "{{-" and after "-%}" / "-}}" belong to the element
TagElem(t, p) ==
  LET q == SkipWS(t, p)
      g == Tag(t, IF StartsWith(t, q, "{%-") THEN q ELSE p)
  IN IF ~Ok(g) THEN Fail
     ELSE [k |-> "tag", name |-> g.name, toks |-> g.toks, b |-> p, trims |-> StartsWith(t, q, "{%-"),
           e |-> IF SubSeq(t, g.e - 3, g.e - 1) = "-%}" THEN SkipWS(t, g.e) ELSE g.e]
ExprElem(t, p) ==
  LET q == SkipWS(t, p)
      x == Expression(t, IF StartsWith(t, q, "{{-") THEN q ELSE p)
  IN IF ~Ok(x) THEN Fail
     ELSE [k |-> "expr", chain |-> x.chain, b |-> p,
           e |-> IF SubSeq(t, x.e - 3, x.e - 1) = "-}}" THEN SkipWS(t, x.e) ELSE x.e]
\* Raw = @{ (!(TagStart | ExpressionStart) ~ ANY)+ }
RECURSIVE RawEnd(_, _)
RawEnd(t, p) == IF p > Len(t) \/ TagStartAt(t, p) \/ ExprStartAt(t, p) THEN p ELSE RawEnd(t, p + 1)

\* LaxLiquidFile = ${ SOI ~ (Element | InvalidLiquid)* ~ EOI },  Element = _{ Expression | Tag | Raw }
RECURSIVE Elements(_, _)
Elements(t, p) ==
  IF p > Len(t) THEN <<>>
  ELSE LET x == ExprElem(t, p) IN
       IF Ok(x) THEN <<x>> \o Elements(t, x.e)
       ELSE LET g == TagElem(t, p) IN
            IF Ok(g) THEN <<g>> \o Elements(t, g.e)
            ELSE LET r == RawEnd(t, p) IN
                 IF r > p THEN <<[k |-> "raw", s |-> SubSeq(t, p, r - 1), b |-> p, e |-> r]>> \o Elements(t, r)
                 ELSE <<[k |-> "invalid", b |-> p, e |-> p + 1]>> \o Elements(t, p + 1)

(* ------------------------------ block protocol ------------------------ *)
Bad == [ok |-> FALSE, unsup |-> FALSE]
Unsupported == [ok |-> FALSE, unsup |-> TRUE]
IsTag(els, i, names) == i <= Len(els) /\ els[i].k = "tag" /\ els[i].name \in names
\* TagBlock::next: the end tag must not carry arguments
EndOk(els, i) == els[i].toks = <<>>

\* ParseSeq(t, els, i, stops, top): statements from element i up to (not including) a tag named in `stops`;
\*   at the end of the input: fine at top level, `Unclosed block` inside a block
\* ParseStmt(t, els, i): the statement starting at element i -> [ok, sts (0 or 1 statements), i = next element, filt]
RECURSIVE ParseSeq(_, _, _, _, _), ParseStmt(_, _, _), ParseIf(_, _, _, _), ParseWhens(_, _, _, _, _, _), ParseComment(_, _, _)
ParseSeq(t, els, i, stops, top) ==
  IF i > Len(els) THEN (IF top THEN [ok |-> TRUE, body |-> <<>>, i |-> i, stop |-> "", filt |-> FALSE] ELSE Bad)
  ELSE IF IsTag(els, i, stops) THEN [ok |-> TRUE, body |-> <<>>, i |-> i, stop |-> els[i].name, filt |-> FALSE]
  ELSE LET s == ParseStmt(t, els, i) IN
       IF ~s.ok THEN s
       ELSE LET r == ParseSeq(t, els, s.i, stops, top) IN
            IF ~r.ok THEN r ELSE [ok |-> TRUE, body |-> s.sts \o r.body, i |-> r.i, stop |-> r.stop, filt |-> s.filt \/ r.filt]

One(st, i, filt) == [ok |-> TRUE, sts |-> <<st>>, i |-> i, filt |-> filt]

\* if / elsif: the tag at i is the header; consumes up to and including {% endif %}
ParseIf(t, els, i, kind) ==
  LET h == ArgsCond(els[i].toks, kind) IN
  IF ~h.ok THEN Bad
  ELSE LET a == ParseSeq(t, els, i + 1, IF kind = "if" THEN {"endif", "else", "elsif"} ELSE {"endunless", "else"}, FALSE) IN
       IF ~a.ok THEN a
       ELSE IF a.stop \in {"endif", "endunless"}
            THEN (IF EndOk(els, a.i) THEN One(h.st @@ [then |-> a.body, else |-> <<>>], a.i + 1, a.filt) ELSE Bad)
       ELSE IF a.stop = "else"                          \* the arguments of this else are not looked at
            THEN LET b == ParseSeq(t, els, a.i + 1, IF kind = "if" THEN {"endif"} ELSE {"endunless"}, FALSE) IN
                 IF ~b.ok THEN b
                 ELSE IF EndOk(els, b.i) THEN One(h.st @@ [then |-> a.body, else |-> b.body], b.i + 1, a.filt \/ b.filt) ELSE Bad
       ELSE LET n == ParseIf(t, els, a.i, "if") IN             \* elsif: a nested if that shares the endif
            IF ~n.ok THEN n ELSE One(h.st @@ [then |-> a.body, else |-> n.sts], n.i, a.filt \/ n.filt)

\* case: arms collected from the tag at i (a when / else / endcase); what precedes the first when is parsed and dropped
ParseWhens(t, els, i, x, whens, filt) ==
  IF els[i].name = "endcase"
  THEN (IF EndOk(els, i) THEN One([t |-> "case", x |-> x, whens |-> whens, else |-> <<>>], i + 1, filt) ELSE Bad)
  ELSE IF els[i].name = "else"
  THEN (IF els[i].toks # <<>> THEN Bad
        ELSE LET b == ParseSeq(t, els, i + 1, {"endcase"}, FALSE) IN
             IF ~b.ok THEN b
             ELSE IF EndOk(els, b.i) THEN One([t |-> "case", x |-> x, whens |-> whens, else |-> b.body], b.i + 1, filt \/ b.filt) ELSE Bad)
  ELSE LET w == ArgsWhen(els[i].toks) IN
       IF ~w.ok THEN Bad
       ELSE LET b == ParseSeq(t, els, i + 1, {"when", "else", "endcase"}, FALSE) IN
            IF ~b.ok THEN b
            ELSE ParseWhens(t, els, b.i, x, Append(whens, [vals |-> w.vals, sep |-> ",", body |-> b.body]), filt \/ b.filt)

RECURSIVE TrimEnd(_)
TrimEnd(x) == IF Len(x) > 0 /\ SubSeq(x, Len(x), Len(x)) \in WS THEN TrimEnd(SubSeq(x, 1, Len(x) - 1)) ELSE x

\* the body of a comment from element j: returns after its {% endcomment %}
BlockOpeners == {"if", "unless", "for", "tablerow", "case", "capture", "ifchanged", "raw"}
HeaderOk(el) ==
  CASE el.name \in {"if", "unless"} -> ArgsCond(el.toks, el.name).ok
    [] el.name \in {"for", "tablerow"} -> ArgsLoop(el.toks, el.name).ok
    [] el.name = "case" -> ArgsCase(el.toks).ok
    [] el.name = "capture" -> ArgsIdentOnly(el.toks, "capture").ok
    [] OTHER -> el.toks = <<>>
ParseComment(t, els, j) ==
  IF j > Len(els) THEN Bad
  ELSE LET el == els[j] IN
       IF el.k # "tag" THEN ParseComment(t, els, j + 1)                         \* text, output, invalid liquid: skipped unparsed
       ELSE IF el.name = "endcomment" THEN (IF EndOk(els, j) THEN One([t |-> "comment"], j + 1, FALSE) ELSE Bad)
       ELSE IF el.name = "comment"
            THEN (IF el.toks # <<>> THEN Bad
                  ELSE LET n == ParseComment(t, els, j + 1) IN IF ~n.ok THEN n ELSE ParseComment(t, els, n.i))
       ELSE IF el.name \in BlockOpeners /\ HeaderOk(el) THEN Unsupported     \* it would parse on, moving the shared cursor
       ELSE ParseComment(t, els, j + 1)                                        \* any other tag: parsed, error ignored

\* a block whose body is everything up to its end tag (tokens.parse_all)
PlainBlock(t, els, i, hdr, endtag) ==
  IF ~hdr.ok THEN Bad
  ELSE LET b == ParseSeq(t, els, i + 1, {endtag}, FALSE) IN
       IF ~b.ok THEN b
       ELSE IF EndOk(els, b.i) THEN One(hdr.st @@ [body |-> b.body], b.i + 1, b.filt) ELSE Bad

ParseStmt(t, els, i) ==
  LET el == els[i] IN
  CASE el.k = "raw" -> One([t |-> "text", c |-> el.s], i + 1, FALSE)
    [] el.k = "invalid" -> Bad
    [] el.k = "expr" -> (LET o == ArgsOutput(el.chain) IN IF o.ok THEN One(o.st, i + 1, o.filt) ELSE Bad)
    [] OTHER ->
       CASE el.name \in {"if", "unless"} -> ParseIf(t, els, i, el.name)
         [] el.name = "for" ->
              (LET h == ArgsLoop(el.toks, "for") IN
               IF ~h.ok THEN Bad
               ELSE LET a == ParseSeq(t, els, i + 1, {"endfor", "else"}, FALSE) IN
                    IF ~a.ok THEN a
                    ELSE IF a.stop = "endfor"
                         THEN (IF EndOk(els, a.i) THEN One(h.st @@ [body |-> a.body, else |-> <<>>], a.i + 1, a.filt) ELSE Bad)
                    ELSE IF els[a.i].toks # <<>> THEN Bad             \* for's else takes no arguments
                    ELSE LET b == ParseSeq(t, els, a.i + 1, {"endfor"}, FALSE) IN
                         IF ~b.ok THEN b
                         ELSE IF EndOk(els, b.i) THEN One(h.st @@ [body |-> a.body, else |-> b.body], b.i + 1, a.filt \/ b.filt) ELSE Bad)
         [] el.name = "tablerow" -> PlainBlock(t, els, i, ArgsLoop(el.toks, "tablerow"), "endtablerow")
         [] el.name = "capture" -> PlainBlock(t, els, i, ArgsIdentOnly(el.toks, "capture"), "endcapture")
         [] el.name = "ifchanged" -> PlainBlock(t, els, i, ArgsNothing(el.toks, "ifchanged"), "endifchanged")
         [] el.name = "case" ->
              (LET h == ArgsCase(el.toks) IN
               IF ~h.ok THEN Bad
               ELSE LET pre == ParseSeq(t, els, i + 1, {"when", "else", "endcase"}, FALSE) IN
                    IF ~pre.ok THEN pre ELSE ParseWhens(t, els, pre.i, h.st.x, <<>>, FALSE))
         [] el.name = "raw" ->
              \* escape_liquid(false): the source from the end of the raw tag to the end of the element before the first
              \* argument-less {% endraw %}; a trimming end tag also trims what an inner "-%}" had swallowed into that text
              (IF el.toks # <<>> THEN Bad
               ELSE LET C == {j \in (i + 1)..Len(els) : els[j].k = "tag" /\ els[j].name = "endraw" /\ els[j].toks = <<>>} IN
                    IF C = {} THEN Bad
                    ELSE LET j == CHOOSE j \in C : \A k \in C : j <= k
                             body == IF j = i + 1 THEN "" ELSE SubSeq(t, els[i + 1].b, els[j - 1].e - 1)
                         IN One([t |-> "raw", c |-> IF els[j].trims THEN TrimEnd(body) ELSE body], j + 1, FALSE))
         [] el.name = "comment" -> (IF el.toks # <<>> THEN Bad ELSE ParseComment(t, els, i + 1))
         [] OTHER -> (LET a == ArgsOf(el.name, el.toks) IN IF a.ok THEN One(a.st, i + 1, a.filt) ELSE Bad)

\* liquid_core::parser::parse
ParseTemplate(t) ==
  LET r == ParseSeq(t, Elements(t, 1), 1, {}, TRUE) IN
  IF r.ok THEN [ok |-> TRUE, unsup |-> FALSE, prog |-> r.body, filt |-> r.filt] ELSE [ok |-> FALSE, unsup |-> r.unsup]
=============================================================================
