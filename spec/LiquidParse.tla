----------------------------- MODULE LiquidParse -----------------------------
(***************************************************************************)
(* From a whole template text to the program LiquidInterp runs:            *)
(*   1. the element scan of grammar.pest LaxLiquidFile (Expression | Tag | *)
(*      Raw | InvalidLiquid), including the trim-marker forms, which the   *)
(*      grammar implements by making the blanks part of the element;       *)
(*   2. the block protocol of parser.rs TagBlock and of every stdlib block *)
(*      (shared cursor, end tag without arguments, else / elsif / when     *)
(*      handled by the enclosing block only), on top of LiquidArgs.        *)
(* raw and comment are the business of LiquidText; a template that uses    *)
(* them is `unsupported` here.                                             *)
(***************************************************************************)
EXTENDS LiquidArgs

(* ------------------------------ element scan -------------------------- *)
TagStartAt(t, p)  == StartsWith(t, SkipWS(t, p), "{%-") \/ StartsWith(t, p, "{%")
ExprStartAt(t, p) == StartsWith(t, SkipWS(t, p), "{{-") \/ StartsWith(t, p, "{{")

\* the blanks before "{%-" / "{{-" and after "-%}" / "-}}" belong to the element
TagElem(t, p) ==
  LET q == SkipWS(t, p)
      g == Tag(t, IF StartsWith(t, q, "{%-") THEN q ELSE p)
  IN IF ~Ok(g) THEN Fail
     ELSE [k |-> "tag", name |-> g.name, toks |-> g.toks,
           e |-> IF SubSeq(t, g.e - 3, g.e - 1) = "-%}" THEN SkipWS(t, g.e) ELSE g.e]
ExprElem(t, p) ==
  LET q == SkipWS(t, p)
      x == Expression(t, IF StartsWith(t, q, "{{-") THEN q ELSE p)
  IN IF ~Ok(x) THEN Fail
     ELSE [k |-> "expr", chain |-> x.chain,
           e |-> IF SubSeq(t, x.e - 3, x.e - 1) = "-}}" THEN SkipWS(t, x.e) ELSE x.e]
\* Raw = @{ (!(TagStart | ExpressionStart) ~ ANY)+ }
RECURSIVE RawEnd(_, _)
RawEnd(t, p) == IF p > Len(t) \/ TagStartAt(t, p) \/ ExprStartAt(t, p) THEN p ELSE RawEnd(t, p + 1)

\* LaxLiquidFile = ${ SOI ~ (Element | InvalidLiquid)* ~ EOI },  Element = _{ Expression | Tag | Raw }
RECURSIVE Elements(_, _)
Elements(t, p) ==
  IF p > Len(t) THEN <<>>
  ELSE LET x == ExprElem(t, p) IN
       IF Ok(x) THEN <<x>> \o Elements(t, x.e)
       ELSE LET g == TagElem(t, p) IN
            IF Ok(g) THEN <<g>> \o Elements(t, g.e)
            ELSE LET r == RawEnd(t, p) IN
                 IF r > p THEN <<[k |-> "raw", s |-> SubSeq(t, p, r - 1), e |-> r]>> \o Elements(t, r)
                 ELSE <<[k |-> "invalid", e |-> p + 1]>> \o Elements(t, p + 1)

(* ------------------------------ block protocol ------------------------ *)
Bad == [ok |-> FALSE, unsup |-> FALSE]
Unsupported == [ok |-> FALSE, unsup |-> TRUE]
IsTag(els, i, names) == i <= Len(els) /\ els[i].k = "tag" /\ els[i].name \in names
\* TagBlock::next: the end tag must not carry arguments
EndOk(els, i) == els[i].toks = <<>>

\* ParseSeq(els, i, stops, top): statements from element i up to (not including) a tag named in `stops`;
\*   at the end of the input: fine at top level, `Unclosed block` inside a block
\* ParseStmt(els, i): the statement starting at element i -> [ok, sts (0 or 1 statements), i = next element, filt]
RECURSIVE ParseSeq(_, _, _, _), ParseStmt(_, _), ParseIf(_, _, _), ParseWhens(_, _, _, _, _)
ParseSeq(els, i, stops, top) ==
  IF i > Len(els) THEN (IF top THEN [ok |-> TRUE, body |-> <<>>, i |-> i, stop |-> "", filt |-> FALSE] ELSE Bad)
  ELSE IF IsTag(els, i, stops) THEN [ok |-> TRUE, body |-> <<>>, i |-> i, stop |-> els[i].name, filt |-> FALSE]
  ELSE LET s == ParseStmt(els, i) IN
       IF ~s.ok THEN s
       ELSE LET r == ParseSeq(els, s.i, stops, top) IN
            IF ~r.ok THEN r ELSE [ok |-> TRUE, body |-> s.sts \o r.body, i |-> r.i, stop |-> r.stop, filt |-> s.filt \/ r.filt]

One(st, i, filt) == [ok |-> TRUE, sts |-> <<st>>, i |-> i, filt |-> filt]

\* if / elsif: the tag at i is the header; consumes up to and including {% endif %}
ParseIf(els, i, kind) ==
  LET h == ArgsCond(els[i].toks, kind) IN
  IF ~h.ok THEN Bad
  ELSE LET a == ParseSeq(els, i + 1, IF kind = "if" THEN {"endif", "else", "elsif"} ELSE {"endunless", "else"}, FALSE) IN
       IF ~a.ok THEN a
       ELSE IF a.stop \in {"endif", "endunless"}
            THEN (IF EndOk(els, a.i) THEN One(h.st @@ [then |-> a.body, else |-> <<>>], a.i + 1, a.filt) ELSE Bad)
       ELSE IF a.stop = "else"                          \* the arguments of this else are not looked at
            THEN LET b == ParseSeq(els, a.i + 1, IF kind = "if" THEN {"endif"} ELSE {"endunless"}, FALSE) IN
                 IF ~b.ok THEN b
                 ELSE IF EndOk(els, b.i) THEN One(h.st @@ [then |-> a.body, else |-> b.body], b.i + 1, a.filt \/ b.filt) ELSE Bad
       ELSE LET n == ParseIf(els, a.i, "if") IN             \* elsif: a nested if that shares the endif
            IF ~n.ok THEN n ELSE One(h.st @@ [then |-> a.body, else |-> n.sts], n.i, a.filt \/ n.filt)

\* case: arms collected from the tag at i (a when / else / endcase); what precedes the first when is parsed and dropped
ParseWhens(els, i, x, whens, filt) ==
  IF els[i].name = "endcase"
  THEN (IF EndOk(els, i) THEN One([t |-> "case", x |-> x, whens |-> whens, else |-> <<>>], i + 1, filt) ELSE Bad)
  ELSE IF els[i].name = "else"
  THEN (IF els[i].toks # <<>> THEN Bad
        ELSE LET b == ParseSeq(els, i + 1, {"endcase"}, FALSE) IN
             IF ~b.ok THEN b
             ELSE IF EndOk(els, b.i) THEN One([t |-> "case", x |-> x, whens |-> whens, else |-> b.body], b.i + 1, filt \/ b.filt) ELSE Bad)
  ELSE LET w == ArgsWhen(els[i].toks) IN
       IF ~w.ok THEN Bad
       ELSE LET b == ParseSeq(els, i + 1, {"when", "else", "endcase"}, FALSE) IN
            IF ~b.ok THEN b
            ELSE ParseWhens(els, b.i, x, Append(whens, [vals |-> w.vals, sep |-> ",", body |-> b.body]), filt \/ b.filt)

\* a block whose body is everything up to its end tag (tokens.parse_all)
PlainBlock(els, i, hdr, endtag) ==
  IF ~hdr.ok THEN Bad
  ELSE LET b == ParseSeq(els, i + 1, {endtag}, FALSE) IN
       IF ~b.ok THEN b
       ELSE IF EndOk(els, b.i) THEN One(hdr.st @@ [body |-> b.body], b.i + 1, b.filt) ELSE Bad

ParseStmt(els, i) ==
  LET el == els[i] IN
  CASE el.k = "raw" -> One([t |-> "text", c |-> el.s], i + 1, FALSE)
    [] el.k = "invalid" -> Bad
    [] el.k = "expr" -> (LET o == ArgsOutput(el.chain) IN IF o.ok THEN One(o.st, i + 1, o.filt) ELSE Bad)
    [] OTHER ->
       CASE el.name \in {"if", "unless"} -> ParseIf(els, i, el.name)
         [] el.name = "for" ->
              (LET h == ArgsLoop(el.toks, "for") IN
               IF ~h.ok THEN Bad
               ELSE LET a == ParseSeq(els, i + 1, {"endfor", "else"}, FALSE) IN
                    IF ~a.ok THEN a
                    ELSE IF a.stop = "endfor"
                         THEN (IF EndOk(els, a.i) THEN One(h.st @@ [body |-> a.body, else |-> <<>>], a.i + 1, a.filt) ELSE Bad)
                    ELSE IF els[a.i].toks # <<>> THEN Bad             \* for's else takes no arguments
                    ELSE LET b == ParseSeq(els, a.i + 1, {"endfor"}, FALSE) IN
                         IF ~b.ok THEN b
                         ELSE IF EndOk(els, b.i) THEN One(h.st @@ [body |-> a.body, else |-> b.body], b.i + 1, a.filt \/ b.filt) ELSE Bad)
         [] el.name = "tablerow" -> PlainBlock(els, i, ArgsLoop(el.toks, "tablerow"), "endtablerow")
         [] el.name = "capture" -> PlainBlock(els, i, ArgsIdentOnly(el.toks, "capture"), "endcapture")
         [] el.name = "ifchanged" -> PlainBlock(els, i, ArgsNothing(el.toks, "ifchanged"), "endifchanged")
         [] el.name = "case" ->
              (LET h == ArgsCase(el.toks) IN
               IF ~h.ok THEN Bad
               ELSE LET pre == ParseSeq(els, i + 1, {"when", "else", "endcase"}, FALSE) IN
                    IF ~pre.ok THEN pre ELSE ParseWhens(els, pre.i, h.st.x, <<>>, FALSE))
         [] el.name \in {"raw", "comment"} -> Unsupported
         [] OTHER -> (LET a == ArgsOf(el.name, el.toks) IN IF a.ok THEN One(a.st, i + 1, a.filt) ELSE Bad)

\* liquid_core::parser::parse
ParseTemplate(t) ==
  LET r == ParseSeq(Elements(t, 1), 1, {}, TRUE) IN
  IF r.ok THEN [ok |-> TRUE, unsup |-> FALSE, prog |-> r.body, filt |-> r.filt] ELSE [ok |-> FALSE, unsup |-> r.unsup]
=============================================================================
