SPECIFICATION Spec
CONSTANTS
  EscLen = 5
  UrlLen = 4
  TagLen = 6
  TokLen = 4
  EmitAll = TRUE
INVARIANTS Laws Emit
CHECK_DEADLOCK FALSE
