SPECIFICATION Spec
CONSTANTS
  ArgPool2Small = TRUE
  EmitAll = TRUE
INVARIANTS Emit
CHECK_DEADLOCK FALSE
