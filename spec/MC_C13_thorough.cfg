SPECIFICATION Spec
CONSTANTS
  MaxLen = 4
  MaxArg = 2
  ChainLen = 3
  ChainInLen = 2
  EmitAll = TRUE
INVARIANTS Laws Emit
CHECK_DEADLOCK FALSE
