SPECIFICATION Spec
CONSTANTS
  MaxLen = 4
  MaxLenAll = 2
  EmitAll = TRUE
INVARIANTS Inv Emit
CHECK_DEADLOCK FALSE
