----------------------------- MODULE MC_Frames ------------------------------
(* Bounded exploration of LiquidFrames: every tree of at most MaxF frames   *)
(* (the builder's base of 3 plus plugin frames), every interleaving of      *)
(* frame construction with lookups, global and counter stores, every lazy   *)
(* choice of the borrowed data; the invariants tie each completed call to   *)
(* LiquidRuntime's declarative definitions.                                 *)
EXTENDS LiquidFrames

CONSTANTS MaxF

Startable(op, id) ==
  pend # Idle \/ op \in {"Ask"} \/ (op = "SetGlobal" /\ HasKind(id, "global")) \/ (op \in {"SetIndex", "GetIndex"} /\ HasKind(id, "index"))

MCNext ==
  \/ \E kind \in Kinds, parent \in {0} \cup Ids :
        /\ Cardinality(Ids) < MaxF
        /\ (kind = "core" => Ids = {})          \* one runtime per behaviour
        /\ NewFrame(Cardinality(Ids) + 1, kind, parent)
  \/ \E id \in Ids, key \in FKeys, b \in BOOLEAN :
        \/ AskStep(id, key, b)
        \/ Startable("SetGlobal", id) /\ SetGlobalStep(id, key, b)
        \/ Startable("SetIndex", id) /\ SetIndexStep(id, key, b)
        \/ \E h \in BOOLEAN : Startable("GetIndex", id) /\ GetIndexStep(id, key, b, h)

MCSpec == FInit /\ [][MCNext]_fvars

\* a call in flight can always take its next step (no chain gets stuck: delegation always finds a frame that answers)
ChainProgress ==
  pend # Idle => \E b \in BOOLEAN, h \in BOOLEAN :
     \/ ENABLED AskStep(pend.at, pend.key, b)
     \/ ENABLED SetGlobalStep(pend.at, pend.key, b)
     \/ ENABLED SetIndexStep(pend.at, pend.key, b)
     \/ ENABLED GetIndexStep(pend.at, pend.key, b, h)
\* a global store is seen from every frame above it that does not define or hide the name (checked on completed Asks
\* through DoneMatchesDeclarative); counters: the index frame is the same for every frame of the tree
OneIndexFrame == \A i, j \in Ids : HasKind(i, "index") /\ HasKind(j, "index") =>
                    PathTo(i)[R!IndexTarget(StackOf(i))] = PathTo(j)[R!IndexTarget(StackOf(j))]
=============================================================================
