------------------------------ MODULE MC_C09F ------------------------------
(* C09 beyond what LiquidInterp evaluates: histories of render calls on one *)
(* shared parser over templates that use FILTERS (date parsing, sorting,    *)
(* arithmetic, string filters) and data that differ only in letter case,    *)
(* surrounding blanks or element order.  The specification's statement is   *)
(* that a result is a function of (template, data); the replay compares     *)
(* every call with the same call executed alone (fresh parser, fresh        *)
(* thread).  TLC enumerates every history up to MaxHist.                    *)
EXTENDS Naturals, Sequences, TLC, Json
CONSTANTS MaxHist, EmitAll

S(s) == [k |-> "str", s |-> s]
Srcs == << "[{{ d | date: '%Y/%m/%d' }}]{{ d | date: '%H' | plus: 1 }}",
           "{{ s | upcase }}{{ s | size }}{{ s | split: ',' | sort | join: '-' }}{{ s | strip | capitalize }}",
           "{% assign q = s | split: ',' %}{% for x in q %}{{ x | strip | append: '.' }}{% endfor %}{{ d | date: '%j' | default: 'x' }}{{ s | truncate: 5 }}" >>
Datas == << [d |-> S("16 Feb 2016 10:00:00"), s |-> S("b,a,c")],
            [d |-> S("16 feb 2016 10:00:00"), s |-> S(" B,a,C ")],
            [d |-> S(" 16 Feb 2016 10:00:00 "), s |-> S("b,A,c")],
            [d |-> S("2016-02-16 10:00:00 +0100"), s |-> S("")] >>

VARIABLE h
Init == h = <<>>
Next == Len(h) < MaxHist /\ \E i \in 1..Len(Srcs), j \in 1..Len(Datas) : h' = Append(h, <<i, j>>)
Spec == Init /\ [][Next]_h

Record == [p |-> "C09", kind |-> "history", free |-> TRUE, srcs |-> Srcs, datas |-> Datas, parts |-> [q \in {} |-> 0], policy |-> "lazy", calls |-> h]
Emit == (EmitAll /\ Len(h) = MaxHist) => PrintT(<<"REPLAY", ToJson(Record)>>)
=============================================================================
