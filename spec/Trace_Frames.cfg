SPECIFICATION TraceSpec
CONSTANTS
  FKeys = {}
INVARIANTS FInv
POSTCONDITION TraceAccepted
CHECK_DEADLOCK FALSE
