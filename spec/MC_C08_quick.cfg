SPECIFICATION Spec
CONSTANTS
  MaxBody = 1
  EmitAll = TRUE
  Policies = {"eager"}
  Repeat = 1
INVARIANTS Inv Emit
PROPERTIES ErrorOnlyWhenReached
CHECK_DEADLOCK FALSE
