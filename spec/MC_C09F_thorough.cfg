SPECIFICATION Spec
CONSTANTS
  MaxHist = 4
  EmitAll = TRUE
INVARIANTS Emit
CHECK_DEADLOCK FALSE
