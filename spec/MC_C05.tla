------------------------------ MODULE MC_C05 ------------------------------
(* Bounded instance of LiquidInterp for property C05 (loops): every        *)
(* collection length x offset x limit x reversed x cols, for arrays,       *)
(* ranges and single-key objects, with bodies that print the item and      *)
(* every loop field; break/continue at every iteration of two nested loops *)
EXTENDS LiquidInterp, Json

CONSTANTS MaxLen,      \* collection lengths 0..MaxLen
          MaxAttr,     \* offset / limit values 0..MaxAttr (and absent)
          MaxCols,     \* cols 1..MaxCols (and absent)
          NestMax,     \* nested break/continue family: loop lengths 1..NestMax
          EmitAll

Txt(c)  == [t |-> "text", c |-> c]
Out(x)  == [t |-> "out", x |-> x]
L(n)    == Lit(IntV(n))

ForFields == <<"index", "index0", "rindex", "rindex0", "first", "last", "length">>
TrFields  == <<"index", "index0", "rindex", "rindex0", "first", "last", "length",
               "col", "col0", "col_first", "col_last">>
Body(obj, fields) ==
  <<Txt("["), Out(V("x"))>> \o [i \in 1..Len(fields) |-> Out(Dot(obj, fields[i]))]

AttrChoices == {NoAttr} \cup {AttrOf(L(n)) : n \in 0..MaxAttr}
ColChoices  == {NoAttr} \cup {AttrOf(L(n)) : n \in 1..MaxCols}

\* (source expression, caller data) pairs
Sources ==
  {[src |-> [src |-> "expr", x |-> V("arr")],
    data |-> [q \in {"arr"} |-> ArrV([i \in 1..n |-> IntV(i)])]] : n \in 0..MaxLen} \cup
  {[src |-> [src |-> "range", lo |-> L(1), hi |-> L(n)], data |-> EmptyMap] : n \in 0..MaxLen} \cup
  {[src |-> [src |-> "range", lo |-> V("lo"), hi |-> V("hi")],
    data |-> [q \in {"lo", "hi"} |-> IF q = "lo" THEN IntV(3) ELSE IntV(2 + n)]] : n \in 0..MaxLen} \cup
  {[src |-> [src |-> "expr", x |-> V("obj")],
    data |-> [q \in {"obj"} |-> ObjV([k \in {"k"} |-> IntV(5)])]],
   [src |-> [src |-> "expr", x |-> V("obj")], data |-> [q \in {"obj"} |-> ObjV(EmptyMap)]],
   [src |-> [src |-> "expr", x |-> V("arr")], data |-> [q \in {"arr"} |-> NilV]],
   [src |-> [src |-> "expr", x |-> V("arr")], data |-> [q \in {"arr"} |-> StrV("")]],
   [src |-> [src |-> "expr", x |-> V("arr")], data |-> [q \in {"arr"} |-> IntV(3)]]}

ForProg(s, lim, off, rev) ==
  << [t |-> "for", var |-> "x", src |-> s, lim |-> lim, off |-> off, rev |-> rev,
      body |-> Body("forloop", ForFields), else |-> <<Txt("E")>>] >>
TrProg(s, lim, off, cols) ==
  << [t |-> "tablerow", var |-> "x", src |-> s, lim |-> lim, off |-> off, cols |-> cols,
      body |-> Body("tablerow", TrFields)] >>

WindowCases ==
  {[prog |-> ForProg(sd.src, lim, off, rev), data |-> sd.data] :
      sd \in Sources, lim \in AttrChoices, off \in AttrChoices, rev \in BOOLEAN} \cup
  {[prog |-> TrProg(sd.src, lim, off, cols), data |-> sd.data] :
      sd \in Sources, lim \in AttrChoices, off \in AttrChoices, cols \in ColChoices}

(* ---- break / continue in two nested loops ---- *)
Eq(x, n) == [c |-> "bin", op |-> "==", l |-> x, r |-> L(n)]
And(a, b) == [c |-> "and", l |-> a, r |-> b]
IfDo(c, body) == [t |-> "if", cond |-> c, then |-> body, else |-> <<>>]
Loop(v, n, body) == [t |-> "for", var |-> v, src |-> [src |-> "range", lo |-> L(1), hi |-> L(n)],
                     lim |-> NoAttr, off |-> NoAttr, rev |-> FALSE, body |-> body, else |-> <<>>]
Intr(k) == [t |-> k]
\* inner loop prints  <i j parentloop.index forloop.index>
InnerBody(pre) == pre \o <<Out(V("i")), Out(V("j")), Out(Var("forloop", <<Lit(StrV("parentloop")), Lit(StrV("index"))>>)),
                           Out(Dot("forloop", "index")), Txt(" ")>>
NestCases ==
  \* interrupt inside the inner loop at (I, J)
  {[prog |-> <<Loop("i", n, <<Txt("("), Loop("j", m, InnerBody(<<IfDo(And(Eq(V("i"), I), Eq(V("j"), J)), <<Intr(k)>>)>>)),
                              Txt(")"), Out(Dot("forloop", "index"))>>), Txt("$")>>,
    data |-> EmptyMap] : n \in 1..NestMax, m \in 1..NestMax, I \in 1..NestMax, J \in 1..NestMax, k \in {"break", "continue"}} \cup
  \* interrupt in the outer body, before or after the inner loop, at I
  {[prog |-> <<Loop("i", n, <<Txt("(")>> \o (IF before THEN <<IfDo(Eq(V("i"), I), <<Intr(k)>>)>> ELSE <<>>) \o
                            <<Loop("j", m, InnerBody(<<>>))>> \o
                            (IF before THEN <<>> ELSE <<IfDo(Eq(V("i"), I), <<Intr(k)>>)>>) \o
                            <<Txt(")"), Out(Dot("forloop", "index"))>>), Txt("$")>>,
    data |-> EmptyMap] : n \in 1..NestMax, m \in 1..NestMax, I \in 1..NestMax, k \in {"break", "continue"}, before \in BOOLEAN} \cup
  \* interrupt inside a capture inside the loop: binds the text before it, still ends the loop
  {[prog |-> <<Loop("i", n, <<[t |-> "capture", var |-> "c",
                                body |-> <<Out(V("i")), IfDo(Eq(V("i"), I), <<Intr(k)>>), Txt("+")>>],
                              Out(V("c")), Txt(";")>>), Out(V("c")), Txt("$")>>,
    data |-> EmptyMap] : n \in 1..NestMax, I \in 1..NestMax, k \in {"break", "continue"}}

Cases == IF NestMax = 0 THEN WindowCases ELSE IF MaxLen < 0 THEN NestCases ELSE WindowCases \cup NestCases

VARIABLE case
allvars == <<vars, case>>

Init == /\ case \in Cases
        /\ prog = case.prog /\ data = case.data
        /\ parts = EmptyMap
        /\ SetInit(InitState(prog, data, 0))

Spec == Init /\ [][Next /\ UNCHANGED case]_allvars

Inv == /\ TypeOK /\ DataUntouched /\ LayerShape /\ CleanFinish
       /\ VisitsExactlySelected /\ LoopObjectTruthful

\* the else branch runs exactly when nothing is selected
ElseIffEmpty ==
  [][AtStmt({"for"}) /\ status' = "running" =>
       LET s == Top(ctl).body[Top(ctl).pc]
           c == Materialise(layers, s.src)
           w == Select(c.items, Attr(layers, s.off), Attr(layers, s.lim), s.rev)
       IN  IF Len(w) = 0 THEN Top(ctl').f = "tmpl" /\ Top(ctl').body = s.else
           ELSE ctl'[Len(ctl') - 1].f = "for"]_allvars

Record == [p |-> "C05", kind |-> "render", prog |-> prog, parts |-> parts, data |-> data,
           expect |-> Result(St), nt |-> TRUE]
Emit == (EmitAll /\ Done) => PrintT(<<"REPLAY", ToJson(Record)>>)
=============================================================================
