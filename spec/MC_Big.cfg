SPECIFICATION Spec
INVARIANTS Laws Emit
CHECK_DEADLOCK FALSE
