SPECIFICATION Spec
CONSTANTS
  Names = {"a", "b", "c"}
  MaxNodes = 3
  MaxDepth = 2
  EmitAll = TRUE
  WideLeaves = FALSE
INVARIANTS Inv Precedence Emit
PROPERTIES GlobalWrittenOnlyByAssign
CHECK_DEADLOCK FALSE
