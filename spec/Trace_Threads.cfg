SPECIFICATION TraceSpec
CONSTANTS
  Threads = {"t1","t2","t3","t4","t5","t6","t7","t8","t9","t10","t11","t12","t13","t14","t15","t16"}
  Valid = {"p1", "p2", "q.liquid", "node", "leaf"}
  Broken = {"b1"}
  Absent = {"nosuch", "nosuch.liquid", "q", "b1.liquid"}
  MaxCalls = 0
INVARIANT CacheOK
POSTCONDITION TraceAccepted
CHECK_DEADLOCK FALSE
