SPECIFICATION Spec
CONSTANTS
  Eighths = 40
  EmitAll = TRUE
INVARIANTS Laws RoundTiesAway Emit
CHECK_DEADLOCK FALSE
