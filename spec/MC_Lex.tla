------------------------------- MODULE MC_Lex -------------------------------
(* From characters to output: a host template with one variable element,   *)
(* whose inner text ranges over every concatenation of up to MaxPieces      *)
(* lexical pieces (generic alphabet) or up to MaxPhrase pieces of the       *)
(* host's own vocabulary.  LiquidLex lexes the element as the PEG does,     *)
(* LiquidArgs consumes the tokens as the tag's parser does, LiquidInterp    *)
(* renders the resulting statement; the record carries the source text and  *)
(* the expected verdict / output, the harness parses and renders the text   *)
(* with the real crates.                                                    *)
EXTENDS LiquidInterp, Json

CONSTANTS MaxPieces, MaxPhrase, MaxTmpl, MaxDeep, Hosts, EmitAll

A == INSTANCE LiquidParse

Txt(c)  == [t |-> "text", c |-> c]
Out(x)  == [t |-> "out", x |-> x]
Read(n) == [t |-> "if", cond |-> [c |-> "truthy", x |-> V(n)], then |-> <<Out(V(n))>>, else |-> <<Txt("-")>>]

(* ------------------------------ alphabet ------------------------------ *)
Big20 == "99999999999999999999"
Generic == {"a", "b", "i", "x", "in", "limit", "reversed", "with", "as", "for", "and", "or", "contains", "size", "upcase", "append",
            "nil", "true", "empty", "1", "2", "-", "+", "1.5", Big20, "'s'", "'", "\"",
            ".", "..", "[", "]", "(", ")", ",", ":", "|", "=", "==", "<", "<>", "!=", " ", "\t"}

\* host = [name, pre, post, at (position of the variable element in pre \o inner \o post), vocab]
Host(n, pre, post, at, vocab) == [n |-> n, pre |-> pre, post |-> post, at |-> at, vocab |-> vocab]
\* the variable text is the SOURCE OF PARTIAL p, included and rendered by a fixed caller under all three policies
PartialCaller == "[{% include 'p' %}|{% render 'p', a: 5 %}]"
PartialVocab == {" ", "\n", " \n ", "x", "{%- if a -%}", "{% if a %}", "{%- endif %}", "{% endif -%}", "{{- a -}}", "{{a}}", "{%- assign z = 1 %}", "{{ z }}",
                 "{% if", "{%- else %}", "{% increment c -%}"}
TmplVocab ==
  {"x", " ", " \n ", "{{a}}", "{{- a -}}", "{{i}}", "{{c}}", "{{forloop.index}}", "{{nosuch}}",
   "{% if a %}", "{% if nosuch %}", "{%- if a == 3 -%}", "{% elsif i %}", "{% else %}", "{% endif %}", "{% unless nosuch %}", "{% endunless %}",
   "{% for i in (1..2) %}", "{% for i in arr limit:1 %}", "{% endfor %}", "{% break %}", "{% continue %}",
   "{% case a %}", "{% when 3 %}", "{% when 1, 2 %}", "{% endcase %}", "{% capture c %}", "{% endcapture %}",
   "{% assign a = 7 %}", "{% increment c %}", "{% cycle 'u', 'v' %}", "{% ifchanged %}", "{% endifchanged %}",
   "{% tablerow i in (1..2) cols:1 %}", "{% endtablerow %}", "{% include 'p' %}",
   "{% endif x %}", "{% else x %}", "{% bogus %}", "{%", "{{", "{% comment %}", "{% endcomment %}", "{% raw %}", "{% endraw %}"}
HostTable ==
  { Host("out", "{{", "}}", 1, {"a", "b.k", "arr", "[0]", "[-1]", "[i]", "[", "]", "1", "-1", ".", "first", "size", " ", "|", "upcase", "append", ":", "'s'", ",", "nil", "i", "b['k']", "[ 'k' ]", "x", Big20, "1|plus:", "arr[0][", "a|slice:0,", "\"'q'\"", "'\"'", "\"a'\"", "b[\"'k'\"]"}),
    Host("assign", "{% assign ", "%}{{v}}", 1, {"v", " ", "=", "a", "b.k", "1", "'s'", "|", "size", "append", ":", ",", "true", "v=a", "v = ", "nil", "arr[1]", "x", Big20, "v=1|plus:", "v=arr[0]["}),
    Host("if", "{% if ", "%}T{% else %}F{% endif %}", 1,
         {"a", "b.k", "x", "1", "3", "'s'", "nil", "true", " ", "==", "<", ">=", "<>", " contains ", " and ", " or ", "=", "empty", "|",
          "a==3", "x==1", "a<1", "arr contains 5", "b.k>=5", Big20, "1==", "arr[0]["}),
    Host("unless", "{% unless ", "%}T{% endunless %}", 1, {"a", " ", "==", "3", " or ", " and ", "x", "nil", "a==3", "x==1"}),
    Host("for", "{% for ", "%}{{i}},{% endfor %}", 1,
         {"i in (1..3)", "i in arr", "q in x", "i in (1..a)", " limit:2", " offset:1", " reversed", " cols:2", " limit", " offset", ":", "1", "a", " ", ",",
          "i", " in ", "(1..3)", "arr", "x", "i in (1..", "i in (", "..1)", ")", Big20, " limit:"}),
    Host("tablerow", "{% tablerow ", "%}{{i}}{% endtablerow %}", 1,
         {"i in (1..3)", "i in arr", " limit:2", " offset:1", " reversed", " cols:2", " cols", ":", "2", " ", ",", "i", " in ", "arr"}),
    Host("when", "{% case 1 %}{% when ", "%}W{% else %}E{% endcase %}", 13, {"1", "2", "a", "x", " or ", ",", " ", "'s'", " and ", "nil", "|", "2,1", "2 or 1", Big20, "1,"}),
    Host("case", "{% case ", "%}{% when 3 %}W{% else %}E{% endcase %}", 1, {"a", "3", " ", "b.k", "x", ",", "|", "size", "1", "==", Big20, "arr[0]["}),
    Host("cycle", "{% for q in (1..3) %}{% cycle ", "%}{% endfor %}", 22, {"'g'", "g", ":", ",", " ", "1", "2", "a", "x", "nil", "'s'", "|", "'g': ", "1,2", ",3", "1 2", Big20, "1,"}),
    Host("include", "{% include ", "%}", 1, {"'p'", "s", " ", " a:1", " i:2", " a:x", ",", " b", "x", ":", "1", "|", "'q'", "a", Big20, " a:", " a:arr[0]["}),
    Host("render", "{% render ", "%}", 1, {"'p'", "s", " ", ", a:1", ", i:2", ", a:x", ",", " with a as i", " for arr as i", " for (1..2) as a", " for x as a",
                                           " with ", " as ", " for ", "x", "1", "a", "i", " a:1", Big20, ", a:", " for (1..", ") as a"}),
    Host("increment", "{% increment ", "%}{{a}}", 1, {"a", "c", " ", "b.k", "1", ",", "c c"}),
    Host("capture", "{% capture ", "%}x{% endcapture %}{{c}}", 1, {"c", " ", "b.k", "'c'", "=", "c c"}),
    Host("break", "{% for q in (1..2) %}{{q}}{% break ", "%}{% endfor %}", 27, {" ", "a", "1", ","}),
    Host("ifchanged", "{% ifchanged ", "%}x{% endifchanged %}", 1, {" ", "a", "1", ","}),
    \* whole templates: the pieces are elements (LiquidParse: element scan + block protocol)
    Host("tmpl", "", "", 1, TmplVocab),
    \* deeper, per construct (bound MaxTmpl)
    Host("tmpl_if", "", "", 1, {"{% if a %}", "{% if nosuch %}", "{%- if a == 3 -%}", "{% elsif i %}", "{% else %}", "{% endif %}", "x", "{{a}}", " ", "{% else x %}"}),
    Host("tmpl_for", "", "", 1, {"{% for i in (1..2) %}", "{% for i in arr limit:1 %}", "{% endfor %}", "{% else %}", "{% break %}", "{% continue %}", "{{i}}",
                                 "{{- forloop.index -}}", " ", "x", "{% if i == 1 %}", "{% endif %}"}),
    Host("tmpl_case", "", "", 1, {"{% case a %}", "{% when 3 %}", "{% when 1, 2 %}", "{% else %}", "{% endcase %}", "x", "y", " ", "{% else x %}"}),
    Host("tmpl_cap", "", "", 1, {"{% capture c %}", "{% endcapture %}", "{{c}}", "{% assign c = 1 %}", "x", "{% ifchanged %}", "{% endifchanged %}", "{% increment c %}",
                                 "{% cycle 'u', 'v' %}", "{% tablerow i in (1..2) cols:1 %}", "{% endtablerow %}", "{{i}}"}),
    Host("partial", "", "", 1, PartialVocab),
    \* stray braces and blanks next to trimming and non-trimming elements: what a trim marker removes is exactly the blanks
    Host("tmpl_trim", "", "", 1, {"{", "}", " ", "\n", "x", "{{- a -}}", "{{a}}", "{%- if a -%}", "{% if a %}", "{%- endif -%}", "{% endif %}", "{{-", "-}}", "%}", "{{-1}}", "{{-a}}", "{{-1 -}}", "\r", "\r\n"}),
    \* comments: nested, with malformed headers and end tags, around invalid liquid and broken tags (C01: what must be rejected)
    Host("tmpl_comment", "", "", 1, {"{% comment %}", "{% comment x %}", "{% endcomment %}", "{% endcomment x %}", "a", " ", "{% if %}", "{% bogus %}", "{{",
                                     "{% raw %}", "{% endraw %}", "{% assign %}"}),
    \* the same family, deeper, over its 12 core elements (bound MaxDeep)
    Host("tmpl_raw_deep", "", "", 1, {"{% raw %}", "{% endraw %}", "{%- endraw %}", "{% endraw x %}", " ", "a", "{{", "-%} ", "{% comment %}", "{% endcomment %}",
                                      "{% if a %}", "{"}),
    Host("tmpl_raw", "", "", 1, {"{% raw %}", "{% raw -%}", "{% endraw %}", "{%- endraw %}", "{% endraw x %}", " ", "a", "{{a}}", "{{", "{% if a %}", "-%} ",
                                 "{% comment %}", "{% endcomment %}", "{% endcomment x %}", "{% bogus %}", "{% if %}", "{", "}"}) }
IsTmpl(n) == n \in {"tmpl", "tmpl_if", "tmpl_for", "tmpl_case", "tmpl_cap", "tmpl_raw", "tmpl_raw_deep", "tmpl_trim", "tmpl_comment"}
HostOf(n) == CHOOSE h \in HostTable : h.n = n

TheData == [n \in {"a", "b", "i", "arr", "s"} |->
  CASE n = "a" -> IntV(3) [] n = "b" -> ObjV([q \in {"k"} |-> IntV(5)]) [] n = "i" -> IntV(9)
    [] n = "arr" -> ArrV(<<IntV(4), IntV(5), IntV(6)>>) [] n = "s" -> StrV("p")]
TheParts == [n \in {"p"} |-> [ok |-> TRUE, body |-> <<Txt("("), Read("a"), Read("i"), Txt(")")>>]]

(* ---------------------- from the text to a program -------------------- *)
\* the statement the accepted header stands for, completed with the host's fixed body
Complete(h, st) ==
  CASE h.n = "out" -> <<st>>
    [] h.n = "assign" -> <<st, Out(V("v"))>>
    [] h.n = "if" -> <<st @@ [then |-> <<Txt("T")>>, else |-> <<Txt("F")>>]>>
    [] h.n = "unless" -> <<st @@ [then |-> <<Txt("T")>>, else |-> <<>>]>>
    [] h.n = "for" -> <<st @@ [body |-> <<Out(V("i")), Txt(",")>>, else |-> <<>>]>>
    [] h.n = "tablerow" -> <<st @@ [body |-> <<Out(V("i"))>>]>>
    [] h.n = "when" -> <<[t |-> "case", x |-> Lit(IntV(1)), whens |-> <<[vals |-> st, sep |-> ",", body |-> <<Txt("W")>>]>>, else |-> <<Txt("E")>>]>>
    [] h.n = "case" -> <<st @@ [whens |-> <<[vals |-> <<Lit(IntV(3))>>, sep |-> ",", body |-> <<Txt("W")>>]>>, else |-> <<Txt("E")>>]>>
    [] h.n = "cycle" -> <<[t |-> "for", var |-> "q", src |-> [src |-> "range", lo |-> Lit(IntV(1)), hi |-> Lit(IntV(3))],
                           lim |-> NoAttr, off |-> NoAttr, rev |-> FALSE, body |-> <<st>>, else |-> <<>>]>>
    [] h.n \in {"include", "render"} -> <<st>>
    [] h.n = "increment" -> <<st, Out(V("a"))>>
    [] h.n = "capture" -> <<st @@ [body |-> <<Txt("x")>>], Out(V("c"))>>
    [] h.n = "break" -> <<[t |-> "for", var |-> "q", src |-> [src |-> "range", lo |-> Lit(IntV(1)), hi |-> Lit(IntV(2))],
                           lim |-> NoAttr, off |-> NoAttr, rev |-> FALSE, body |-> <<Out(V("q")), st>>, else |-> <<>>]>>
    [] h.n = "ifchanged" -> <<st @@ [body |-> <<Txt("x")>>]>>
    [] IsTmpl(h.n) \/ h.n = "partial" -> st

\* verdict and program of the whole template pre \o inner \o post
PartOf(src) == LET r == A!ParseTemplate(src) IN
               IF r.ok /\ ~r.filt THEN [ok |-> TRUE, body |-> r.prog] ELSE [ok |-> FALSE]
Parse(h, inner) ==
  IF h.n = "partial"
  THEN LET r == A!ParseTemplate(PartialCaller) IN [ok |-> TRUE, filt |-> FALSE, st |-> r.prog]
  ELSE
  IF IsTmpl(h.n)
  THEN LET r == A!ParseTemplate(inner) IN
       IF r.ok THEN [ok |-> TRUE, filt |-> r.filt, st |-> r.prog] ELSE [ok |-> FALSE, unsup |-> r.unsup]
  ELSE
  LET text == h.pre \o inner \o h.post
      endpos == Len(h.pre) + Len(inner) + 3       \* just after the closing delimiter (the first two characters of post)
  IN IF h.n = "out"
     THEN LET e == A!Expression(text, h.at) IN
          IF A!Ok(e) /\ e.e = endpos THEN A!ArgsOutput(e.chain) ELSE [ok |-> FALSE]
     ELSE LET g == A!Tag(text, h.at) IN
          IF ~(A!Ok(g) /\ g.e = endpos) THEN [ok |-> FALSE]
          ELSE IF h.n = "when"
               THEN (IF g.name = "when" THEN LET w == A!ArgsWhen(g.toks) IN IF w.ok THEN [ok |-> TRUE, filt |-> FALSE, st |-> w.vals] ELSE [ok |-> FALSE]
                     ELSE [ok |-> FALSE])
               ELSE A!ArgsOf(g.name, g.toks)

(* ------------------------------ enumeration --------------------------- *)
VARIABLES phase, host, inner, n, mode
lexvars == <<phase, host, inner, n, mode>>
allv == <<vars, lexvars>>

Alphabet(h, m) == IF m = "generic" THEN Generic ELSE h.vocab
Bound(h, m) == IF m = "generic" THEN MaxPieces ELSE IF h = "tmpl_raw_deep" THEN MaxDeep ELSE IF h \in {"tmpl_if", "tmpl_for", "tmpl_case", "tmpl_cap", "tmpl_raw", "partial", "tmpl_trim", "tmpl_comment"} THEN MaxTmpl ELSE MaxPhrase

LInit == /\ phase = "seed" /\ host \in Hosts /\ mode \in {"generic", "phrase"}
         /\ inner \in {""} \cup Alphabet(HostOf(host), mode) /\ n = (IF inner = "" THEN 0 ELSE 1)
         /\ Bound(host, mode) >= 1
         /\ prog = <<>> /\ parts = TheParts /\ data = TheData
         /\ SetInit(InitState(<<>>, TheData, 0))
\* the remaining pieces are chosen in one step (shared by TLC's workers)
RECURSIVE Words(_, _)
Words(S, k) == IF k = 0 THEN {""} ELSE {""} \cup {p \o w : p \in S, w \in Words(S, k - 1)}
Pick == /\ phase = "seed" /\ phase' = "done"
        /\ \E w \in (IF n = 0 THEN {""} ELSE Words(Alphabet(HostOf(host), mode), Bound(host, mode) - 1)) : inner' = inner \o w
        /\ parts' = IF host = "partial" THEN [q \in {"p"} |-> PartOf(inner')] ELSE parts
        /\ UNCHANGED <<prog, data, machine, host, n, mode>>
LNext == Pick
LSpec == LInit /\ [][LNext]_allv

(* ------------------------------- records ------------------------------ *)
Printable == " !\"#$%&'()*+,-./0123456789:;<=>?@ABCDEFGHIJKLMNOPQRSTUVWXYZ[\\]^_`abcdefghijklmnopqrstuvwxyz{|}~"
Code(c) == IF c = "\t" THEN 9 ELSE IF c = "\n" THEN 10 ELSE IF c = "\r" THEN 13
           ELSE 31 + (CHOOSE j \in 1..Len(Printable) : SubSeq(Printable, j, j) = c)
Codes(s) == [j \in 1..Len(s) |-> Code(SubSeq(s, j, j))]

\* outputs are predicted only where LiquidInterp evaluates everything involved: no filters, no 20-digit or long literals
Predictable(p) == p.ok /\ ~p.filt /\ ~StrContains(inner, Big20)
Record ==
  LET h == HostOf(host)
      p == Parse(h, inner)
      src == IF host = "partial" THEN PartialCaller ELSE h.pre \o inner \o h.post
  IN IF ~p.ok THEN [p |-> "LEX", kind |-> "parse", src |-> Codes(src), nt |-> TRUE, host |-> host,
                    expect |-> IF "unsup" \in DOMAIN p /\ p.unsup THEN "unspecified" ELSE "reject"]
     ELSE IF ~Predictable(p) THEN [p |-> "LEX", kind |-> "parse", src |-> Codes(src), expect |-> "accept", nt |-> TRUE, host |-> host]
     ELSE IF host = "partial"
     THEN [p |-> "LEX", kind |-> "source", src |-> Codes(src), data |-> data, nt |-> TRUE, host |-> host,
           parts |-> [q \in {"p"} |-> [ok |-> parts["p"].ok, src |-> Codes(inner)]],
           policies |-> <<"eager", "lazy", "ondemand">>, repeat |-> 2, expect |-> Result(RunFrom(InitState(p.st, data, 0)))]
     ELSE [p |-> "LEX", kind |-> "source", src |-> Codes(src), data |-> data, parts |-> parts, nt |-> TRUE, host |-> host,
           policies |-> <<"eager">>, expect |-> Result(RunFrom(InitState(Complete(h, p.st), data, 0)))]
Emit == (EmitAll /\ phase = "done") => PrintT(<<"REPLAY", ToJson(Record)>>)

\* model-level sanity: a rejected element never depends on what follows the element; accepted programs always finish
Total == phase = "done" =>
  LET p == Parse(HostOf(host), inner) IN
  p.ok /\ Predictable(p) => RunFrom(InitState(Complete(HostOf(host), p.st), data, 0)).status \in {"ok", "err"}
=============================================================================
