------------------------------ MODULE MC_C01 ------------------------------
(* Bounded instance of LiquidSyntax for property C01: every element         *)
(* sequence up to MaxLen over the structural alphabet (and up to MaxLenAll  *)
(* over the whole alphabet), each emitted joined by "" and by " ".          *)
EXTENDS LiquidSyntax, Json
CONSTANTS MaxLen, MaxLenAll, EmitAll

Structural ==
  { El("a", "text"),
    Open("{% if x %}", "if", TRUE), Open("{% for i in a %}", "for", TRUE), Open("{% case x %}", "case", TRUE),
    Open("{% comment %}", "comment", TRUE), Open("{% raw %}", "raw", TRUE), Open("{% capture v %}", "capture", TRUE),
    Close("{% endif %}", "if"), Close("{% endfor %}", "for"), Close("{% endcase %}", "case"), Close("{% endcomment %}", "comment"),
    Close("{% endraw %}", "raw"), Close("{% endcapture %}", "capture"),
    Mid("{% else %}", "else", TRUE), Mid("{% elsif y %}", "elsif", TRUE), Mid("{% when 1 %}", "when", TRUE),
    El("{{ x }}", "out_ok"), El("{{ x | nosuchfilter }}", "out_bad"), El("{{", "stray_open") }
Others ==
  { El("\t", "text"), El("}}", "stray_close"), El("%}", "stray_close"), El("{", "stray_close"), El("}", "stray_close"),
    El("{%", "stray_open"),
    El("{{ x | upcase }}", "out_ok"), El("{{- x -}}", "out_ok"), El("{{ x | upcase: 1 }}", "out_bad"), El("{{ x | append }}", "out_bad"),
    El("{{ x | append: 'a', 'b' }}", "out_bad"), El("{{ 99999999999999999999 }}", "out_bad"), El("{{ -9223372036854775808 }}", "out_ok"),
    El("{{ 'unterminated }}", "out_bad"), El("{{ }}", "out_bad"), El("{{ x | }}", "out_bad"), El("{{ 1.5.2 }}", "out_bad"),
    El("{{ a.b[0]['k'] }}", "out_ok"), El("{{ a[ }}", "out_bad"),
    El("{% assign z = 1 %}", "tag_ok"), El("{%- assign z = 1 -%}", "tag_ok"), El("{% assign %}", "tag_bad"), El("{% assign z 1 %}", "tag_bad"),
    El("{% nosuchtag %}", "tag_bad"), El("{% break %}", "tag_ok"), El("{% continue %}", "tag_ok"), El("{% break 1 %}", "tag_bad"),
    El("{% cycle 'a', 'b' %}", "tag_ok"), El("{% cycle %}", "tag_bad"), El("{% increment v %}", "tag_ok"), El("{% decrement %}", "tag_bad"),
    El("{% include 'p' %}", "tag_ok"), El("{% render 'p' %}", "tag_ok"), El("{% include %}", "tag_bad"), El("{% render 'p' with %}", "tag_bad"),
    Open("{% unless x %}", "unless", TRUE), Open("{% tablerow i in a cols:2 %}", "tablerow", TRUE), Open("{% ifchanged %}", "ifchanged", TRUE),
    Open("{%- if x == 1 and y -%}", "if", TRUE), Open("{% for i in (1..3) reversed limit:2 %}", "for", TRUE),
    Open("{% if %}", "if", FALSE), Open("{% if x == %}", "if", FALSE), Open("{% for i %}", "for", FALSE), Open("{% for i in a limit %}", "for", FALSE),
    Open("{% case %}", "case", FALSE), Open("{% capture %}", "capture", FALSE), Open("{% raw x %}", "raw", FALSE), Open("{% comment x %}", "comment", FALSE),
    Open("{% tablerow i in %}", "tablerow", FALSE), Open("{% unless %}", "unless", FALSE),
    Close("{% endunless %}", "unless"), Close("{% endtablerow %}", "tablerow"), Close("{% endifchanged %}", "ifchanged"),
    Close("{%- endif -%}", "if"),
    Mid("{% else x %}", "else", FALSE), Mid("{% elsif %}", "elsif", FALSE), Mid("{% when %}", "when", FALSE), Mid("{% when 1, 2 or 3 %}", "when", TRUE) }
Alphabet == Structural \cup Others

RECURSIVE SeqsOver(_, _)
SeqsOver(A, n) == IF n = 0 THEN {<<>>} ELSE SeqsOver(A, n - 1) \cup {Append(s, e) : s \in {q \in SeqsOver(A, n - 1) : Len(q) = n - 1}, e \in A}

VARIABLE seed
allv == <<svars, seed>>
\* two-step enumeration: a first element (seed), then the rest
Init == /\ seed \in {[first |-> e, wide |-> w] : e \in Alphabet, w \in BOOLEAN} \cup {[first |-> [cls |-> "none"], wide |-> FALSE]}
        /\ seq = <<>> /\ pos = 0 /\ stack = <<>> /\ verdict = "seed" /\ tainted = FALSE
Choose == /\ verdict = "seed"
          /\ \E rest \in (IF seed.first.cls = "none" THEN {<<>>}
                          ELSE IF seed.wide THEN SeqsOver(Alphabet, MaxLenAll - 1) ELSE SeqsOver(Structural, MaxLen - 1)) :
                seq' = (IF seed.first.cls = "none" THEN <<>> ELSE <<seed.first>>) \o rest
          /\ pos' = 1 /\ stack' = <<>> /\ verdict' = "pending" /\ UNCHANGED <<seed, tainted>>
Next == Choose \/ (SNext /\ UNCHANGED seed)
Spec == Init /\ [][Next]_allv

Inv == /\ (verdict # "seed" => NeverStuck) /\ ClosedOnAccept
       /\ verdict \in {"seed", "pending", "accept", "reject", "unspecified"}
Done == verdict \in {"accept", "reject", "unspecified"}
\* joined without separator, a stray brace fuses with the next delimiter into a different token
EndsBrace(e) == SubSeq(e.src, Len(e.src), Len(e.src)) = "{"
StartsDelim(e) == SubSeq(e.src, 1, 1) \in {"{", "%"}
Fuses == \E i \in 1..(Len(seq) - 1) : EndsBrace(seq[i]) /\ StartsDelim(seq[i + 1])
\* a stray opening delimiter and a later stray closing one of the same kind can enclose what lies between them and form an
\* element of their own (stray "{{", text, stray "}}" is an output tag): no verdict is claimed for such a text
Reforms == \E i, j \in 1..Len(seq) : i < j /\ ((seq[i].src = "{{" /\ seq[j].src = "}}") \/ (seq[i].src = "{%" /\ seq[j].src = "%}"))
Record(joined) == [p |-> "C01", kind |-> "parse", src |-> joined, expect |-> verdict, nt |-> (Len(seq) > 1)]
Emit == (EmitAll /\ Done) => /\ PrintT(<<"REPLAY", ToJson(IF Fuses \/ Reforms THEN [Record(Source) EXCEPT !.expect = "unspecified"] ELSE Record(Source))>>)
                            /\ (Len(seq) > 1 => PrintT(<<"REPLAY", ToJson(IF Reforms THEN [Record(SourceSpaced) EXCEPT !.expect = "unspecified"]
                                                                            ELSE Record(SourceSpaced))>>))
=============================================================================
