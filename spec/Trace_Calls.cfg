SPECIFICATION TraceSpec
POSTCONDITION TraceAccepted
CHECK_DEADLOCK FALSE
