SPECIFICATION LSpec
CONSTANTS
  MaxPieces = 0
  MaxPhrase = 0
  MaxTmpl = 4
  MaxDeep = 5
  Hosts = {"tmpl_raw", "tmpl_raw_deep", "tmpl_trim"}
  EmitAll = TRUE
INVARIANTS Emit
CHECK_DEADLOCK FALSE
