----------------------------- MODULE LiquidSink -----------------------------
(***************************************************************************)
(* The caller's output sink as streaming render uses it (src/template.rs   *)
(* render_to; every writer goes through std::io::Write::write_all).        *)
(* A logical write of the render machine (LiquidInterp.Write) is a run of  *)
(* physical calls: each call is offered the not yet accepted bytes and     *)
(* either accepts a non-empty prefix of them or fails.  After a failure    *)
(* the render returns an error and never calls the sink again.             *)
(***************************************************************************)
EXTENDS Naturals, Sequences, SequencesExt

VARIABLES accepted,   \* bytes the sink has taken so far
          failed,     \* a call has failed
          calls,      \* number of physical calls so far
          returned,   \* "none" | "ok" | "err"
          full,       \* what the fault-free run of the same render writes (from binding A)
          ffok        \* whether that fault-free run returns Ok (a template may fail by itself)
sinkvars == <<accepted, failed, calls, returned, full, ffok>>

SinkInit(f, ok) == accepted = <<>> /\ failed = FALSE /\ calls = 0 /\ returned = "none" /\ full = f /\ ffok = ok

\* a call that is offered `offered` and takes its first n bytes
SinkAccept(offered, n) ==
  /\ ~failed /\ returned = "none"
  /\ n >= 1 /\ n <= Len(offered)
  /\ accepted' = accepted \o SubSeq(offered, 1, n)
  /\ calls' = calls + 1
  /\ UNCHANGED <<failed, returned, full, ffok>>

\* a call that fails (it may not take anything)
SinkFail(offered) ==
  /\ ~failed /\ returned = "none"
  /\ failed' = TRUE /\ calls' = calls + 1
  /\ UNCHANGED <<accepted, returned, full, ffok>>

\* render_to returns
SinkReturn(ok) ==
  /\ returned = "none"
  /\ ok = (~failed /\ ffok)            \* Err iff a call failed (or the template fails by itself)
  /\ ~failed => accepted = full         \* without a failure the stream is the fault-free output
  /\ returned' = IF ok THEN "ok" ELSE "err"
  /\ UNCHANGED <<accepted, failed, calls, full, ffok>>

\* C10
AcceptedIsPrefix == IsPrefix(accepted, full)
\* (a new render call starts with failed' = FALSE)
NothingAfterFailure == [][(failed /\ failed') => accepted' = accepted /\ calls' = calls]_sinkvars
=============================================================================
