------------------------------ MODULE MC_C16 ------------------------------
EXTENDS LiquidFiltersHtml, Json
CONSTANTS EscLen, UrlLen, TagLen, TokLen, EmitAll

StrV(s) == [k |-> "str", s |-> s]
RECURSIVE Strings(_, _)
Strings(A, n) == IF n = 0 THEN {<<>>} ELSE Strings(A, n - 1) \cup {Append(s, c) : s \in {q \in Strings(A, n - 1) : Len(q) = n - 1}, c \in A}
EscAlpha == {LT, GT, AMP, QUOT, APOS, SEMI, HASH, 97, 108, 116, 109, 112, SP, EACUTE, 51, 57, 113, 117, 111, 103}
EscAlphaCore == {LT, GT, AMP, QUOT, APOS, SEMI, HASH, 97, 108, 116, 109, 112, SP, EACUTE}
UrlAlpha == {PCT, PLUS, 50, 70, 102, SP, 47, EACUTE, EMOJI, 65533, 126, 45, 95, 46}     \* U+FFFD is a character like any other
TagAlpha == {LT, GT, 33, 45, 47, 115, 99, 114, 105, 112, 116, 97}
\* token-level inputs reach the script / style / comment passes
Tokens == {ScriptO, ScriptC, StyleO, StyleC, CommO, CommC, <<LT>>, <<GT>>, <<97>>, <<LF>>, <<60, 83, 67, 82, 73, 80, 84>>,
           <<60, 47, 83, 99, 114, 105, 112, 116, 62>>, <<45>>}
RECURSIVE TokSeqs(_)
TokSeqs(n) == IF n = 0 THEN {<<>>} ELSE TokSeqs(n - 1) \cup {s \o t : s \in TokSeqs(n - 1), t \in Tokens}
\* entity-level inputs: whole and near entities
\* code points whose low byte is one of the five special ASCII characters (0x22 0x26 0x27 0x3C 0x3E): U+013C, U+2026, U+043E, U+0127,
\* U+0122, and U+0126 followed by "amp;" - they are ordinary text
WideTokens == {<<316>>, <<8230>>, <<1086>>, <<295>>, <<290>>, <<294, 97, 109, 112, 59>>, <<1084, 1086, 1083>>}
EntTokens == WideTokens \cup Entities \cup {<<AMP>>, <<AMP, 97, 109, 112>>, <<AMP, 108, 116, SEMI, SEMI>>, <<AMP, HASH, 51, 57>>, <<LT>>, <<97>>, <<SEMI>>}
RECURSIVE EntSeqs(_)
EntSeqs(n) == IF n = 0 THEN {<<>>} ELSE EntSeqs(n - 1) \cup {s \o t : s \in EntSeqs(n - 1), t \in EntTokens}

Seeds == {[f |-> "esc", first |-> c] : c \in EscAlphaCore} \cup {[f |-> "esctok"], [f |-> "url"], [f |-> "tagtok"]} \cup
         {[f |-> "tag", first |-> c] : c \in TagAlpha}
CasesOf(sd) ==
  CASE sd.f = "esc"    -> {[f |-> "esc", s |-> <<sd.first>> \o r] : r \in Strings(EscAlphaCore, EscLen - 1)} \cup
                          (IF sd.first = LT THEN {[f |-> "esc", s |-> <<>>]} ELSE {})
    [] sd.f = "esctok" -> {[f |-> "esc", s |-> s] : s \in EntSeqs(TokLen)}
    [] sd.f = "url"    -> {[f |-> "url", s |-> s] : s \in Strings(UrlAlpha, UrlLen)}
    [] sd.f = "tag"    -> {[f |-> "tag", s |-> <<sd.first>> \o r] : r \in Strings(TagAlpha, TagLen - 1)}
    [] sd.f = "tagtok" -> {[f |-> "tag", s |-> s] : s \in TokSeqs(TokLen)}

VARIABLE c
Init == c \in Seeds
Next == "s" \notin DOMAIN c /\ c' \in CasesOf(c)
Spec == Init /\ [][Next]_c
IsCase == "s" \in DOMAIN c

Laws == IsCase =>
  /\ c.f = "esc" =>
       /\ OutputSafe(Escape(c.s)) /\ Unescape(Escape(c.s)) = c.s           \* EscapeOutputSafe, UnescapeOfEscapeIsIdentity
       /\ OutputSafe(EscapeOnce(c.s))
       /\ EscapeOnce(EscapeOnce(c.s)) = EscapeOnce(c.s)                     \* EscapeOnceIdempotent
       /\ Unescape(EscapeOnce(c.s)) = Unescape(c.s)                         \* EscapeOnceKeepsEntities
  /\ c.f = "url" =>
       /\ EncodedCharset(UrlEncode(c.s))                                    \* UrlEncodeCharset
       /\ UrlDecode(UrlEncode(c.s)) = [ok |-> TRUE, s |-> c.s]              \* DecodeOfEncodeIsIdentity
  /\ c.f = "tag" => NoCompleteTag(StripHtml(c.s))                           \* NoCompleteTagRemains

Rec(f, s, expect) == [p |-> "C16", kind |-> "filter", in |-> StrV(s), chain |-> <<[n |-> f, a |-> <<>>]>>, expect |-> expect,
                      nt |-> (s # <<>>)]
Val(s) == [val |-> StrV(s)]
Records ==
  CASE c.f = "esc" -> {Rec("escape", c.s, Val(Escape(c.s))), Rec("escape_once", c.s, Val(EscapeOnce(c.s)))}
    [] c.f = "url" -> {Rec("url_encode", c.s, Val(UrlEncode(c.s))),
                       Rec("url_decode", c.s, IF UrlDecode(c.s).ok THEN Val(UrlDecode(c.s).s) ELSE [err |-> TRUE])}
    [] c.f = "tag" -> {Rec("strip_html", c.s, Val(StripHtml(c.s)))}
Emit == (EmitAll /\ IsCase) => \A r \in Records : PrintT(<<"REPLAY", ToJson(r)>>)
=============================================================================
