SPECIFICATION MCSpec
CONSTANTS
  FKeys = {"a"}
  MaxF = 6
INVARIANTS FInv ChainProgress OneIndexFrame
CHECK_DEADLOCK FALSE
