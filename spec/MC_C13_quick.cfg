SPECIFICATION Spec
CONSTANTS
  MaxLen = 3
  MaxArg = 1
  ChainLen = 2
  ChainInLen = 2
  EmitAll = TRUE
INVARIANTS Laws Emit
CHECK_DEADLOCK FALSE
