----------------------------- MODULE LiquidDates -----------------------------
(***************************************************************************)
(* Dates (crates/core/src/model/scalar/datetime.rs, datetime/strftime.rs,  *)
(* filters/date.rs): an independent proleptic Gregorian calendar, the      *)
(* default printed form and its parser, and the documented meaning of the  *)
(* strftime directives with padding flags, widths and fractional seconds.  *)
(* A date-time is a record of LOCAL civil fields plus the offset:          *)
(*   [y, mo, d, h, mi, s, ns, off]   (off in seconds east of UTC)          *)
(* Text is a sequence of code points.                                      *)
(***************************************************************************)
EXTENDS Integers, Sequences, TLC

(* ------------------------------ text ---------------------------------- *)
Printable == " !\"#$%&'()*+,-./0123456789:;<=>?@ABCDEFGHIJKLMNOPQRSTUVWXYZ[\\]^_`abcdefghijklmnopqrstuvwxyz{|}~"
CodeOf == [ch \in {SubSeq(Printable, i, i) : i \in 1..Len(Printable)} |->
             31 + (CHOOSE i \in 1..Len(Printable) : SubSeq(Printable, i, i) = ch)]
Codes(str) == [i \in 1..Len(str) |-> CodeOf[SubSeq(str, i, i)]]
RECURSIVE NatCodes(_)
NatCodes(n) == IF n < 10 THEN <<48 + n>> ELSE NatCodes(n \div 10) \o <<48 + (n % 10)>>
Rep(c, n) == [i \in 1..n |-> c]
PadLeft(s, w, c) == IF Len(s) >= w THEN s ELSE Rep(c, w - Len(s)) \o s
UpperCodes(s) == [i \in 1..Len(s) |-> IF s[i] >= 97 /\ s[i] <= 122 THEN s[i] - 32 ELSE s[i]]

(* ---------------------------- calendar -------------------------------- *)
IsLeap(y) == (y % 4 = 0 /\ y % 100 # 0) \/ y % 400 = 0
DaysInMonth(y, m) == CASE m \in {1, 3, 5, 7, 8, 10, 12} -> 31 [] m \in {4, 6, 9, 11} -> 30 [] OTHER -> IF IsLeap(y) THEN 29 ELSE 28
\* days since 1970-01-01 (civil-from-days arithmetic, independent of the `time` crate)
DaysFromCivil(y, m, d) ==
  LET yy  == IF m <= 2 THEN y - 1 ELSE y
      era == yy \div 400
      yoe == yy - era * 400
      mp  == IF m > 2 THEN m - 3 ELSE m + 9
      doy == (153 * mp + 2) \div 5 + d - 1
      doe == yoe * 365 + yoe \div 4 - yoe \div 100 + doy
  IN era * 146097 + doe - 719468
CivilFromDays(z0) ==
  LET z   == z0 + 719468
      era == z \div 146097
      doe == z - era * 146097
      yoe == (doe - doe \div 1460 + doe \div 36524 - doe \div 146096) \div 365
      y   == yoe + era * 400
      doy == doe - (365 * yoe + yoe \div 4 - yoe \div 100)
      mp  == (5 * doy + 2) \div 153
      d   == doy - (153 * mp + 2) \div 5 + 1
      m   == IF mp < 10 THEN mp + 3 ELSE mp - 9
  IN [y |-> IF m <= 2 THEN y + 1 ELSE y, m |-> m, d |-> d]
Days(t) == DaysFromCivil(t.y, t.mo, t.d)
WdaySun(t) == (Days(t) + 4) % 7                  \* 0 = Sunday (1970-01-01 was a Thursday)
WdayMon(t) == ((WdaySun(t) + 6) % 7) + 1         \* 1 = Monday .. 7 = Sunday
Ordinal(t) == Days(t) - DaysFromCivil(t.y, 1, 1) + 1
WeekU(t) == (Ordinal(t) + 6 - WdaySun(t)) \div 7
WeekW(t) == (Ordinal(t) + 6 - ((WdaySun(t) + 6) % 7)) \div 7
\* ISO 8601 week date
YearDays(y) == IF IsLeap(y) THEN 366 ELSE 365
IsoWeeksIn(y) ==        \* 53 iff 1 January is a Thursday, or a Wednesday in a leap year
  LET jan1 == ((DaysFromCivil(y, 1, 1) + 4) % 7) IN
  IF jan1 = 4 \/ (jan1 = 3 /\ IsLeap(y)) THEN 53 ELSE 52
IsoWeekDate(t) ==
  LET w == (Ordinal(t) - WdayMon(t) + 10) \div 7 IN
  IF w < 1 THEN [y |-> t.y - 1, w |-> IsoWeeksIn(t.y - 1)]
  ELSE IF w > IsoWeeksIn(t.y) THEN [y |-> t.y + 1, w |-> 1]
  ELSE [y |-> t.y, w |-> w]
\* the instant, as (days, second of day) in UTC
UtcSeconds(t) == t.h * 3600 + t.mi * 60 + t.s - t.off
InstantDays(t) == Days(t) + (UtcSeconds(t) \div 86400)
InstantSecs(t) == UtcSeconds(t) % 86400

MonthNames == <<"January", "February", "March", "April", "May", "June", "July", "August", "September", "October",
                "November", "December">>
DayNames == <<"Sunday", "Monday", "Tuesday", "Wednesday", "Thursday", "Friday", "Saturday">>   \* index WdaySun + 1
Abbr(s) == SubSeq(s, 1, 3)

(* ------------------------ default print / parse ----------------------- *)
D2(n) == PadLeft(NatCodes(n), 2, 48)
D4(n) == PadLeft(NatCodes(n), 4, 48)
OffsetCodes(off, colon, secs) ==
  LET a == IF off < 0 THEN 0 - off ELSE off IN
  <<IF off < 0 THEN 45 ELSE 43>> \o D2(a \div 3600) \o (IF colon THEN <<58>> ELSE <<>>) \o D2((a % 3600) \div 60)
  \o (IF secs THEN <<58>> \o D2(a % 60) ELSE <<>>)
\* subsecond digits as the `time` crate prints them: nine digits with trailing zeros removed
RECURSIVE StripZeros(_)
StripZeros(s) == IF Len(s) > 1 /\ s[Len(s)] = 48 THEN StripZeros(SubSeq(s, 1, Len(s) - 1)) ELSE s
PrintTs(t) ==
  D4(t.y) \o <<45>> \o D2(t.mo) \o <<45>> \o D2(t.d) \o <<32>> \o D2(t.h) \o <<58>> \o D2(t.mi) \o <<58>> \o D2(t.s)
  \o (IF t.ns = 0 THEN <<>> ELSE <<46>> \o StripZeros(PadLeft(NatCodes(t.ns), 9, 48)))
  \o <<32>> \o OffsetCodes(t.off, FALSE, FALSE)
\* parser of that form
RECURSIVE Num(_, _, _)
Num(s, i, j) == IF i > j THEN 0 ELSE Num(s, i, j - 1) * 10 + (s[j] - 48)
Parse(s) ==
  LET hasFrac == s[20] = 46
      fracEnd == IF hasFrac THEN (CHOOSE j \in 21..Len(s) : s[j + 1] = 32 /\ \A q \in 21..j : s[q] # 32) ELSE 19
      o == fracEnd + 2            \* position of the sign
      sign == IF s[o] = 45 THEN 0 - 1 ELSE 1
      nfrac == fracEnd - 20
      RECURSIVE Pow10(_)
      Pow10(n) == IF n = 0 THEN 1 ELSE 10 * Pow10(n - 1)
  IN [y |-> Num(s, 1, 4), mo |-> Num(s, 6, 7), d |-> Num(s, 9, 10), h |-> Num(s, 12, 13), mi |-> Num(s, 15, 16),
      s |-> Num(s, 18, 19), ns |-> IF hasFrac THEN Num(s, 21, fracEnd) * Pow10(9 - nfrac) ELSE 0,
      off |-> sign * (Num(s, o + 1, o + 2) * 3600 + Num(s, o + 3, o + 4) * 60)]

\* the other spellings the parser accepts (whole seconds)
Month2(t) == D2(t.mo)
Spellings(t) ==
  LET hms == D2(t.h) \o <<58>> \o D2(t.mi) \o <<58>> \o D2(t.s)
      off == <<32>> \o OffsetCodes(t.off, FALSE, FALSE) IN
  << D2(t.d) \o <<32>> \o Codes(MonthNames[t.mo]) \o <<32>> \o D4(t.y) \o <<32>> \o hms \o off,
     D2(t.d) \o <<32>> \o Codes(Abbr(MonthNames[t.mo])) \o <<32>> \o D4(t.y) \o <<32>> \o hms \o off,
     D2(t.mo) \o <<47>> \o D2(t.d) \o <<47>> \o D4(t.y) \o <<32>> \o hms \o off,
     Codes(Abbr(DayNames[WdaySun(t) + 1])) \o <<32>> \o Codes(Abbr(MonthNames[t.mo])) \o <<32>> \o NatCodes(t.d) \o <<32>> \o hms
        \o <<32>> \o D4(t.y) \o off >>

(* ------------------------------ strftime ------------------------------ *)
ValD(s) == [val |-> s]
\* a directive: [flags: sequence over "-", "_", "0", "^", "#"; width: -1 (none) or n; ch: code of the conversion character]
\* Results: [val |-> codes] | [err |-> TRUE] | [any |-> TRUE]
Has(fl, c) == \E i \in 1..Len(fl) : fl[i] = c
\* the last of "_" / "0" wins; "-" turns padding off for good; the last of "^" / "#" wins
PadFlag(fl) == LET idx == {i \in 1..Len(fl) : fl[i] \in {"_", "0"}} IN
               IF idx = {} THEN "d" ELSE fl[CHOOSE i \in idx : \A j \in idx : j <= i]
CaseFlag(fl) == LET idx == {i \in 1..Len(fl) : fl[i] \in {"^", "#"}} IN
                IF idx = {} THEN "d" ELSE fl[CHOOSE i \in idx : \A j \in idx : j <= i]
NoPad(fl) == Has(fl, "-")

\* numeric conversion: value, default width, default padding character
Numeric(v, defw, spaceDefault, fl, width) ==
  LET neg == v < 0
      digits == NatCodes(IF neg THEN 0 - v ELSE v)
      w == IF width >= 0 THEN width ELSE defw
      padc == IF PadFlag(fl) = "_" \/ (PadFlag(fl) = "d" /\ spaceDefault) THEN 32 ELSE 48
  IN IF NoPad(fl) THEN ValD((IF neg THEN <<45>> ELSE <<>>) \o digits)
     ELSE IF ~neg THEN ValD(PadLeft(digits, w, padc))
     ELSE [any |-> TRUE]         \* negative values only arise for years before 1 (not generated)
Alpha(str, fl, width) ==
  LET s0 == Codes(str)
      s1 == IF CaseFlag(fl) # "d" THEN UpperCodes(s0) ELSE s0
      padc == IF PadFlag(fl) = "0" THEN 48 ELSE 32
  IN IF width >= 0 /\ ~NoPad(fl) THEN PadLeft(s1, width, padc) ELSE s1
Hour12(t) == IF t.h % 12 = 0 THEN 12 ELSE t.h % 12

\* expansion of the composite conversions (no flags, no width)
Plain(ch) == [flags |-> <<>>, width |-> 0 - 1, ch |-> CodeOf[ch]]
RECURSIVE Directive(_, _)
Lit(c) == [lit |-> c]
IsLit(x) == "lit" \in DOMAIN x
Expand(t, list) ==       \* list of (directive | literal)
  LET RECURSIVE E(_)
      E(i) == IF i > Len(list) THEN <<>>
              ELSE (IF IsLit(list[i]) THEN <<list[i].lit>> ELSE Directive(t, list[i]).val) \o E(i + 1)
  IN E(1)
Directive(t, dv) ==
  LET fl == dv.flags  w == dv.width  c == dv.ch
      num(v, dw, sp) == Numeric(v, dw, sp, fl, w)
      simple == fl = <<>> /\ w < 0
  IN
  CASE c = CodeOf["Y"] -> num(t.y, 4, FALSE)
    [] c = CodeOf["C"] -> num(t.y \div 100, 2, FALSE)
    [] c = CodeOf["y"] -> num(t.y % 100, 2, FALSE)
    [] c = CodeOf["m"] -> num(t.mo, 2, FALSE)
    [] c = CodeOf["d"] -> num(t.d, 2, FALSE)
    [] c = CodeOf["e"] -> num(t.d, 2, TRUE)
    [] c = CodeOf["j"] -> num(Ordinal(t), 3, FALSE)
    [] c = CodeOf["H"] -> num(t.h, 2, FALSE)
    [] c = CodeOf["k"] -> num(t.h, 2, TRUE)
    [] c = CodeOf["I"] -> num(Hour12(t), 2, FALSE)
    [] c = CodeOf["l"] -> num(Hour12(t), 2, TRUE)
    [] c = CodeOf["M"] -> num(t.mi, 2, FALSE)
    [] c = CodeOf["S"] -> num(t.s, 2, FALSE)
    [] c = CodeOf["u"] -> num(WdayMon(t), 0, FALSE)
    [] c = CodeOf["w"] -> num(WdaySun(t), 0, FALSE)
    [] c = CodeOf["U"] -> num(WeekU(t), 2, FALSE)
    [] c = CodeOf["W"] -> num(WeekW(t), 2, FALSE)
    [] c = CodeOf["G"] -> num(IsoWeekDate(t).y, 4, FALSE)
    [] c = CodeOf["g"] -> num(IsoWeekDate(t).y % 100, 2, FALSE)
    [] c = CodeOf["V"] -> num(IsoWeekDate(t).w, 2, FALSE)
    [] c = CodeOf["s"] -> IF t.y >= 1970 /\ t.y <= 2037
                          THEN num(InstantDays(t) * 86400 + InstantSecs(t), 0, FALSE) ELSE [any |-> TRUE]
    [] c = CodeOf["B"] -> ValD(Alpha(MonthNames[t.mo], fl, w))
    [] c \in {CodeOf["b"], CodeOf["h"]} -> ValD(Alpha(Abbr(MonthNames[t.mo]), fl, w))
    [] c = CodeOf["A"] -> ValD(Alpha(DayNames[WdaySun(t) + 1], fl, w))
    [] c = CodeOf["a"] -> ValD(Alpha(Abbr(DayNames[WdaySun(t) + 1]), fl, w))
    [] c = CodeOf["p"] -> IF CaseFlag(fl) = "#" THEN [any |-> TRUE] ELSE ValD(Alpha(IF t.h < 12 THEN "AM" ELSE "PM", fl, w))
    [] c = CodeOf["P"] -> IF CaseFlag(fl) # "d" THEN [any |-> TRUE] ELSE ValD(Alpha(IF t.h < 12 THEN "am" ELSE "pm", fl, w))
    [] c = CodeOf["%"] -> IF simple THEN ValD(<<37>>) ELSE [any |-> TRUE]
    [] c = CodeOf["n"] -> IF simple THEN ValD(<<10>>) ELSE [any |-> TRUE]
    [] c = CodeOf["t"] -> IF simple THEN ValD(<<9>>) ELSE [any |-> TRUE]
    \* fractional seconds: the LEADING digits of the nanosecond field; beyond nine digits, zeros on the right
    [] c \in {CodeOf["L"], CodeOf["N"]} ->
         LET n == IF w >= 0 THEN w ELSE IF c = CodeOf["L"] THEN 3 ELSE 9
             nine == PadLeft(NatCodes(t.ns), 9, 48)
         IN IF w = 0 THEN [any |-> TRUE]
            ELSE ValD(IF n <= 9 THEN SubSeq(nine, 1, n) ELSE nine \o Rep(48, n - 9))
    \* offsets: pinned down without a width and without the space-padding flag
    [] c = CodeOf["z"] -> IF w < 0 /\ PadFlag(fl) # "_" THEN ValD(OffsetCodes(t.off, FALSE, FALSE)) ELSE [any |-> TRUE]
    [] c = CodeOf["Z"] -> IF w < 0 /\ PadFlag(fl) # "_" THEN ValD(OffsetCodes(t.off, TRUE, FALSE)) ELSE [any |-> TRUE]   \* documented deviation: an offset, not a zone name
    \* composites, pinned down only in their plain form
    [] c = CodeOf["F"] -> IF simple THEN ValD(Expand(t, <<Plain("Y"), Lit(45), Plain("m"), Lit(45), Plain("d")>>)) ELSE [any |-> TRUE]
    [] c = CodeOf["R"] -> IF simple THEN ValD(Expand(t, <<Plain("H"), Lit(58), Plain("M")>>)) ELSE [any |-> TRUE]
    [] c \in {CodeOf["T"], CodeOf["X"]} -> IF simple THEN ValD(Expand(t, <<Plain("H"), Lit(58), Plain("M"), Lit(58), Plain("S")>>)) ELSE [any |-> TRUE]
    [] c \in {CodeOf["D"], CodeOf["x"]} -> IF simple THEN ValD(Expand(t, <<Plain("m"), Lit(47), Plain("d"), Lit(47), Plain("y")>>)) ELSE [any |-> TRUE]
    [] c = CodeOf["r"] -> IF simple THEN ValD(Expand(t, <<Plain("I"), Lit(58), Plain("M"), Lit(58), Plain("S"), Lit(32), Plain("p")>>)) ELSE [any |-> TRUE]
    [] c = CodeOf["c"] -> IF simple THEN ValD(Expand(t, <<Plain("a"), Lit(32), Plain("b"), Lit(32), Plain("e"), Lit(32), Plain("H"), Lit(58), Plain("M"), Lit(58),
                                                        Plain("S"), Lit(32), Plain("Y")>>)) ELSE [any |-> TRUE]
    [] c = CodeOf["v"] -> IF simple THEN ValD(Expand(t, <<Plain("e"), Lit(45)>>) \o UpperCodes(Codes(Abbr(MonthNames[t.mo]))) \o <<45>>
                                             \o Expand(t, <<Plain("Y")>>)) ELSE [any |-> TRUE]
    [] OTHER -> [unknown |-> TRUE]

KnownChars == {CodeOf[SubSeq(s, 1, 1)] : s \in {"Y","C","y","m","d","e","j","H","k","I","l","M","S","u","w","U","W","G","g","V","s","B","b","h",
                "A","a","p","P","%","n","t","L","N","z","Z","F","R","T","X","D","x","r","c","v"}}
FlagCode(f) == CodeOf[f]
DirectiveSrc(dv) == <<37>> \o [i \in 1..Len(dv.flags) |-> FlagCode(dv.flags[i])]
                    \o (IF dv.width >= 0 THEN NatCodes(dv.width) ELSE <<>>) \o <<dv.ch>>

\* a format is a sequence of items: Lit(code) | directive record | Trailing (a lone % at the end)
Trailing == [trailing |-> TRUE]
IsTrailing(x) == "trailing" \in DOMAIN x
FormatSrc(items) == LET RECURSIVE F(_)
                        F(i) == IF i > Len(items) THEN <<>>
                                ELSE (IF IsLit(items[i]) THEN <<items[i].lit>>
                                      ELSE IF IsTrailing(items[i]) THEN <<37>> ELSE DirectiveSrc(items[i])) \o F(i + 1)
                    IN F(1)
Strftime(t, items) ==
  LET RECURSIVE G(_)
      G(i) == IF i > Len(items) THEN ValD(<<>>)
              ELSE IF IsTrailing(items[i]) THEN [err |-> TRUE]          \* a malformed format is an error
              ELSE LET r == IF IsLit(items[i]) THEN ValD(<<items[i].lit>>)
                            ELSE LET d == Directive(t, items[i]) IN
                                 IF "unknown" \in DOMAIN d THEN ValD(DirectiveSrc(items[i]))   \* an unknown directive is echoed
                                 ELSE d
                       rest == G(i + 1)
                   IN IF "err" \in DOMAIN rest THEN rest
                      ELSE IF "any" \in DOMAIN r \/ "any" \in DOMAIN rest THEN [any |-> TRUE]
                      ELSE ValD(r.val \o rest.val)
  IN G(1)
=============================================================================
