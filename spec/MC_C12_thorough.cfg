SPECIFICATION Spec
CONSTANTS
  Depth2Pool = TRUE
  EmitAll = TRUE
INVARIANTS Laws Emit
CHECK_DEADLOCK FALSE
