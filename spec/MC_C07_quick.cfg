SPECIFICATION Spec
CONSTANTS
  MaxPath = 3
  EmitAll = TRUE
INVARIANTS Inv Emit
CHECK_DEADLOCK FALSE
