------------------------------ MODULE MC_C04 ------------------------------
(* Bounded instance of LiquidInterp for property C04 (scoping): every      *)
(* program with at most MaxNodes statement nodes and nesting MaxDepth over *)
(* a statement alphabet in which the same names are caller data, assigned  *)
(* and captured variables, loop variables, counters and include arguments. *)
EXTENDS LiquidInterp, Json

CONSTANTS Names, MaxNodes, MaxDepth, EmitAll, WideLeaves

(* ---- statement alphabet ---- *)
Txt(c)  == [t |-> "text", c |-> c]
Out(x)  == [t |-> "out", x |-> x]
\* a read that does not end the render when the name is undefined
Read(n) == [t |-> "if", cond |-> [c |-> "truthy", x |-> V(n)],
            then |-> <<Out(V(n))>>, else |-> <<Txt("-")>>]
Assign_(n, x) == [t |-> "assign", var |-> n, x |-> x]
Inc(n)  == [t |-> "inc", var |-> n]
Dec(n)  == [t |-> "dec", var |-> n]
Incl(n) == [t |-> "include", name |-> Lit(StrV("p")), args |-> <<[k |-> n, x |-> Lit(StrV("i"))]>>]
For_(n, body) == [t |-> "for", var |-> n,
                  src |-> [src |-> "range", lo |-> Lit(IntV(7)), hi |-> Lit(IntV(8))],
                  lim |-> NoAttr, off |-> NoAttr, rev |-> FALSE, body |-> body, else |-> <<>>]
Capture_(n, body) == [t |-> "capture", var |-> n, body |-> body]
IfT(n, body) == [t |-> "if", cond |-> [c |-> "truthy", x |-> V(n)], then |-> body, else |-> <<>>]

First2 == CHOOSE pr \in Names \X Names : pr[1] # pr[2]   \* the pair used for the copy statement
\* value collisions on purpose: an assigned value may equal the loop variable's first value (7), a counter's value (1),
\* the include argument ("i") or the caller datum ("d") - a binding must win by position, never by comparing values
InclSame(n) == [t |-> "include", name |-> Lit(StrV("p")), args |-> <<[k |-> n, x |-> Lit(StrV("s"))]>>]
\* an argument that passes a name on under the same name still binds it in the partial's frame
InclVar(n, m) == [t |-> "include", name |-> Lit(StrV("p")), args |-> <<[k |-> n, x |-> V(m)]>>]
\* the value-collision and same-name-argument leaves (WideLeaves) take part up to 3 nodes; the 4-node and 3-name tiers use the core
CoreLeaves ==
  {Read(n) : n \in Names} \cup {Assign_(n, Lit(StrV("s"))) : n \in Names} \cup
  {Assign_(First2[1], V(First2[2]))} \cup
  {Inc(n) : n \in Names} \cup {Dec(First2[1])} \cup {Incl(n) : n \in Names}
Leaves ==
  IF ~WideLeaves THEN CoreLeaves ELSE CoreLeaves \cup
  {Assign_(First2[1], Lit(IntV(7))), Assign_(First2[1], Lit(IntV(1))), Assign_(First2[2], Lit(StrV("d"))), Assign_(First2[1], Lit(StrV("i")))} \cup
  {InclSame(First2[1])} \cup
  {InclVar(First2[1], First2[1]), InclVar(First2[2], First2[1])}

Compound(body) ==
  {For_(n, body) : n \in Names} \cup {Capture_(n, body) : n \in Names} \cup {IfT(First2[1], body)}

RECURSIVE Blocks(_, _), Stmts(_, _)
\* statements with exactly n nodes and nesting depth at most d
Stmts(n, d) ==
  IF n = 1 THEN Leaves
  ELSE IF d = 0 THEN {}
  ELSE UNION {Compound(b) : b \in Blocks(n - 1, d - 1)}
\* statement sequences with exactly n nodes in total
Blocks(n, d) ==
  IF n = 0 THEN {<<>>}
  ELSE UNION {{<<s>> \o b : s \in Stmts(k, d), b \in Blocks(n - k, d)} : k \in 1..n}

Programs == UNION {Blocks(n, MaxDepth) : n \in 0..MaxNodes}

\* the included partial: reads every name, rebinds one, bumps a counter
PartVariants ==
  { [p |-> [ok |-> TRUE, body |-> <<Read(First2[1]), Read(First2[2]),
                                     Assign_(First2[1], Lit(StrV("q"))), Read(First2[1])>>]],
    [p |-> [ok |-> TRUE, body |-> <<Inc(First2[1]), Read(First2[1]),
                                     Capture_(First2[2], <<Txt("c"), Read(First2[2])>>)>>]] }

DataChoices ==
  { EmptyMap,
    [n \in {First2[1]} |-> StrV("d")],
    [n \in Names |-> StrV("d")] }

Init == /\ prog \in Programs
        /\ parts \in PartVariants
        /\ data \in DataChoices
        /\ SetInit(InitState(prog, data, 0))

Spec == Init /\ [][Next]_vars

(* ---- invariants ---- *)
Inv == /\ TypeOK /\ DataUntouched /\ LayerShape /\ CleanFinish
       /\ InnermostWins(Names \cup {"forloop"})
       /\ status # "err" \/ TRUE

\* precedence: loop variable / include argument > assign, capture > caller data > counter
Precedence ==
  \A n \in Names :
    LET pos == LayerFor(layers, n) IN
    pos # 0 =>
      \A j \in (pos + 1)..Len(layers) : n \notin DOMAIN layers[j].m

RECURSIVE HasKind(_, _)
HasKind(b, kinds) ==
  \E i \in 1..Len(b) :
     \/ b[i].t \in kinds
     \/ (b[i].t \in {"for", "capture"} /\ HasKind(b[i].body, kinds))
     \/ (b[i].t = "if" /\ (HasKind(b[i].then, kinds) \/ HasKind(b[i].else, kinds)))
NonTrivial == HasKind(prog, {"assign", "capture", "for", "include", "inc", "dec"}) /\ HasKind(prog, {"out"})

Record == [p |-> "C04", kind |-> "render", prog |-> prog, parts |-> parts, data |-> data,
           expect |-> Result(St), nt |-> NonTrivial]
Emit == (EmitAll /\ Done) => PrintT(<<"REPLAY", ToJson(Record)>>)
=============================================================================
