-------------------------- MODULE LiquidFiltersMath --------------------------
(***************************************************************************)
(* Arithmetic filters (crates/lib/src/stdlib/filters/math.rs) as outcome   *)
(* RELATIONS over exact integers (LiquidBig) and exact rationals: what an  *)
(* implementation may return for (op, a, b).  Integers cross as decimal    *)
(* text, doubles as exact dyadic rationals num/den.                        *)
(***************************************************************************)
EXTENDS LiquidBig

(* ---- rationals p/q, q > 0 ---- *)
Rat(p, q) == [p |-> p, q |-> q]
One == FromInt(1)
RInt(n) == Rat(n, One)
RAdd(x, y) == Rat(Add(Mul(x.p, y.q), Mul(y.p, x.q)), Mul(x.q, y.q))
RSub(x, y) == RAdd(x, Rat(Neg(y.p), y.q))
RMul(x, y) == Rat(Mul(x.p, y.p), Mul(x.q, y.q))
RDiv(x, y) == IF y.p.neg THEN Rat(Neg(Mul(x.p, y.q)), Mul(x.q, Abs(y.p))) ELSE Rat(Mul(x.p, y.q), Mul(x.q, y.p))
RCmp(x, y) == Cmp(Mul(x.p, y.q), Mul(y.p, x.q))
REq(x, y) == RCmp(x, y) = 0
RTrunc(x) == DivTrunc(x.p, x.q)                         \* toward zero
RFloor(x) == LET t == RTrunc(x) IN IF x.p.neg /\ ~IsZero(RemTrunc(x.p, x.q)) THEN Sub(t, One) ELSE t
RCeil(x)  == LET t == RTrunc(x) IN IF ~x.p.neg /\ ~IsZero(RemTrunc(x.p, x.q)) THEN Add(t, One) ELSE t
\* nearest integer, ties away from zero
RRound(x) == LET twice == Rat(Mul(Two, x.p), x.q)
                 h == IF x.p.neg THEN Rat(Sub(twice.p, x.q), Mul(Two, x.q)) ELSE Rat(Add(twice.p, x.q), Mul(Two, x.q))
             IN RTrunc(h)     \* trunc(x +/- 1/2)

(* ---- doubles ---- *)
TwoTo53 == Pow2(53)
\* smallest k with m < 2^k: start from the limb count (each limb carries 13.28 bits)
RECURSIVE BitLenFrom(_, _)
BitLenFrom(m, k) == IF Lt(m, Pow2(k)) THEN k ELSE BitLenFrom(m, k + 1)
BitLen(m) == IF IsZero(m) THEN 0 ELSE BitLenFrom(m, (13 * (Len(m.mag) - 1)))
\* i64 as f64: round to nearest, ties to even, when the magnitude needs more than 53 bits
IntToDouble(n) ==
  LET a == Abs(n)  bl == BitLen(a) IN
  IF bl <= 53 THEN RInt(n)
  ELSE LET sh == bl - 53
           unit == Pow2(sh)
           q == DivTrunc(a, unit)  r == RemTrunc(a, unit)
           half == Pow2(sh - 1)
           up == Cmp(r, half) > 0 \/ (Cmp(r, half) = 0 /\ ~IsZero(RemTrunc(q, Two)))
           m == Mul(IF up THEN Add(q, One) ELSE q, unit)
       IN RInt(IF n.neg THEN Neg(m) ELSE m)

\* the value is a double exactly: dyadic and at most 53 significant bits
IsPow2(q) == q = Pow2(BitLen(q) - 1)
RECURSIVE OddPart(_)
OddPart(m) == IF IsZero(m) \/ ~IsZero(RemTrunc(m, Two)) THEN m ELSE OddPart(DivTrunc(m, Two))
IsDouble(x) == IsPow2(x.q) /\ BitLen(OddPart(Abs(x.p))) <= 53

\* r is the exact value x, or (when x is not a double) within 2^-bits relative error of it
Near(r, x, bits) ==
  IF IsZero(x.p) THEN IsZero(r.p)
  ELSE IF IsDouble(x) THEN REq(r, x)
  ELSE Le(Mul(Abs(Sub(Mul(r.p, x.q), Mul(x.p, r.q))), Pow2(bits)), Mul(Abs(x.p), r.q))

(* ---- operands ---- *)
\* [k:"int", n:dec] | [k:"str", s:text, (i: dec int it spells) | (num,den: dyadic it spells)] | [k:"float", num, den]
\* | [k:"nil"] | [k:"bool"] | [k:"arr"]
HasInt(v) == v.k = "int" \/ (v.k = "str" /\ "i" \in DOMAIN v)
IntOf(v) == IF v.k = "int" THEN FromDec(v.n) ELSE FromDec(v.i)
HasFloat(v) == HasInt(v) \/ v.k = "float" \/ (v.k = "str" /\ "num" \in DOMAIN v)
FloatOf(v) == IF HasInt(v) THEN IntToDouble(IntOf(v)) ELSE Rat(FromDec(v.num), FromDec(v.den))
IsScalarV(v) == v.k \in {"int", "str", "float", "bool"}

\* outcomes: [k:"int", n] | [k:"float", num, den] | [k:"error"]
OutIsInt(out, n) == out.k = "int" /\ FromDec(out.n) = n
OutRat(out) == Rat(FromDec(out.num), FromDec(out.den))
OutFloatNear(out, x, bits) == out.k = "float" /\ "num" \in DOMAIN out /\ Near(OutRat(out), x, bits)
IsError(out) == out.k = "error"

IntOp(op, a, b) == CASE op = "plus" -> Add(a, b) [] op = "minus" -> Sub(a, b) [] op = "times" -> Mul(a, b)
                     [] op = "at_least" -> Max(a, b) [] op = "at_most" -> Min(a, b)
RatOp(op, x, y) == CASE op = "plus" -> RAdd(x, y) [] op = "minus" -> RSub(x, y) [] op = "times" -> RMul(x, y)
                     [] op = "divided_by" -> RDiv(x, y)
                     [] op = "at_least" -> (IF RCmp(x, y) >= 0 THEN x ELSE y)
                     [] op = "at_most" -> (IF RCmp(x, y) <= 0 THEN x ELSE y)
                     [] op = "modulo" -> RSub(x, RMul(RInt(RTrunc(RDiv(x, y))), y))          \* fmod: exact

\* C15: what a binary arithmetic filter may return
AllowedBinary(op, a, b, out) ==
  IF ~IsScalarV(a) \/ ~IsScalarV(b) THEN IsError(out)
  ELSE IF HasInt(a) /\ HasInt(b) THEN
    LET x == IntOf(a)  y == IntOf(b) IN
    CASE op \in {"plus", "minus", "times", "at_least", "at_most"} ->
           LET e == IntOp(op, x, y) IN
           IF InI64(e) THEN OutIsInt(out, e)
           \* exact, or an error, or the computation continued in floating point; never a wrapped value
           ELSE IsError(out) \/ OutFloatNear(out, RatOp(op, IntToDouble(x), IntToDouble(y)), 52)
      [] op = "divided_by" ->
           IF IsZero(y) THEN IsError(out)
           ELSE LET q == DivTrunc(x, y) IN
                IF InI64(q)
                THEN \* a = q*b + r with |r| < |b|  (truncating or flooring)
                     out.k = "int" /\ Lt(Abs(Sub(x, Mul(FromDec(out.n), y))), Abs(y))
                ELSE IsError(out) \/ OutFloatNear(out, RDiv(IntToDouble(x), IntToDouble(y)), 52)
      [] op = "modulo" ->
           IF IsZero(y) THEN IsError(out)
           ELSE out.k = "int" /\ Lt(Abs(FromDec(out.n)), Abs(y)) /\ IsZero(RemTrunc(Sub(x, FromDec(out.n)), y))
  ELSE IF HasFloat(a) /\ HasFloat(b) THEN
    LET x == FloatOf(a)  y == FloatOf(b) IN
    IF op \in {"divided_by", "modulo"} /\ IsZero(y.p) THEN IsError(out)
    ELSE OutFloatNear(out, RatOp(op, x, y), 53)
  ELSE IsError(out)

\* integer divided_by and modulo of the same operands fit together
DivModIdentity(a, b, q, r) == Add(Mul(q, b), r) = a /\ Lt(Abs(r), Abs(b))

AllowedUnary(op, a, out) ==
  IF ~IsScalarV(a) THEN IsError(out)
  ELSE CASE op = "abs" ->
         IF HasInt(a) THEN (IF InI64(Abs(IntOf(a))) THEN OutIsInt(out, Abs(IntOf(a)))
                            ELSE IsError(out) \/ OutFloatNear(out, IntToDouble(Abs(IntOf(a))), 52))
         ELSE IF HasFloat(a) THEN OutFloatNear(out, Rat(Abs(FloatOf(a).p), FloatOf(a).q), 53)
         ELSE IsError(out)
    [] op \in {"ceil", "floor", "round"} ->
         IF ~HasFloat(a) THEN IsError(out)
         ELSE LET x == FloatOf(a)
                  n == CASE op = "ceil" -> RCeil(x) [] op = "floor" -> RFloor(x) [] op = "round" -> RRound(x)
              IN IF InI64(n) THEN OutIsInt(out, n) ELSE TRUE      \* beyond the 64-bit range: not claimed

(* ---- laws of the relation itself ---- *)
\* no allowed integer outcome is the two's-complement wrap of an out-of-range exact result
NeverWraps(op, a, b) ==
  (HasInt(a) /\ HasInt(b) /\ op \in {"plus", "minus", "times"}) =>
     LET e == IntOp(op, IntOf(a), IntOf(b)) IN
     ~InI64(e) => ~AllowedBinary(op, a, b, [k |-> "int", n |-> ToDec(Wrap64(e))])
=============================================================================
