SPECIFICATION Spec
CONSTANTS
  MaxLen = 9
  MaxAttr = 11
  MaxCols = 5
  NestMax = 4
  EmitAll = TRUE
INVARIANTS Inv Emit
PROPERTIES BreakEndsInnermostOnly ElseIffEmpty
CHECK_DEADLOCK FALSE
