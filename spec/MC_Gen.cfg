SPECIFICATION GSpec
CONSTANTS
  MaxNodes = 12
  MaxDepth = 4
  EmitAll = TRUE
INVARIANTS Inv Emit
PROPERTIES BreakEndsInnermostOnly
CHECK_DEADLOCK FALSE
