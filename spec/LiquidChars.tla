----------------------------- MODULE LiquidChars -----------------------------
(* Characters as Unicode scalar values (naturals): the classes and tables   *)
(* the filter specifications need, total on the generator repertoire        *)
(* (ASCII, tab/CR/LF, e-acute, sharp s, U+0301 combining acute, NBSP, one   *)
(* emoji).                                                                  *)
EXTENDS Naturals, Sequences

SP == 32  TAB == 9  LF == 10  CR == 13  NBSP == 160
EACUTE == 233  EACUTE_UP == 201  COMBINING == 769  EMOJI == 128512

\* Unicode White_Space (what Rust's str::trim removes), on the repertoire
IsWhiteSpace(c) == c \in {SP, TAB, LF, CR, 11, 12, NBSP, 133}
IsControl(c) == c < 32 \/ c = 127

Upper(c) == IF c >= 97 /\ c <= 122 THEN <<c - 32>>
            ELSE IF c = EACUTE THEN <<EACUTE_UP>>
            ELSE IF c = 223 THEN <<83, 83>>          \* sharp s -> SS
            ELSE IF c = 305 THEN <<73>>              \* dotless i -> I (two bytes become one)
            ELSE IF c = 383 THEN <<83>>              \* long s -> S
            ELSE <<c>>
Lower(c) == IF c >= 65 /\ c <= 90 THEN <<c + 32>>
            ELSE IF c = EACUTE_UP THEN <<EACUTE>>
            ELSE <<c>>

\* UTF-8 length of a scalar value
Utf8Len(c) == IF c < 128 THEN 1 ELSE IF c < 2048 THEN 2 ELSE IF c < 65536 THEN 3 ELSE 4

\* extended grapheme clusters on the repertoire: a combining mark attaches to
\* the preceding character unless that is a control character (or nothing)
IsExtend(c) == c = COMBINING
RECURSIVE Graphemes(_)
Graphemes(s) ==          \* sequence of clusters (each a sequence of scalars)
  IF s = <<>> THEN <<>>
  ELSE LET RECURSIVE Take(_)
           \* length of the first cluster
           Take(i) == IF i < Len(s) /\ IsExtend(s[i + 1]) /\ ~IsControl(s[1]) THEN Take(i + 1) ELSE i
           n == Take(1)
       IN <<SubSeq(s, 1, n)>> \o Graphemes(SubSeq(s, n + 1, Len(s)))

RECURSIVE Flatten(_)
Flatten(ss) == IF ss = <<>> THEN <<>> ELSE ss[1] \o Flatten(Tail(ss))
=============================================================================
