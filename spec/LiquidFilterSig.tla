--------------------------- MODULE LiquidFilterSig ---------------------------
(***************************************************************************)
(* The signature table of every registered filter (stdlib, jekyll,        *)
(* shopify, extra): name and the number of positional arguments it takes.  *)
(* For property C02 the table spans the space  filter x input x arguments  *)
(* and states the outcome class: a filter applied with an arity outside    *)
(* its range is rejected when the template is parsed; inside the range it  *)
(* must return a value or an error (the functional specifications of       *)
(* C13 - C17 say which value, where they exist).                           *)
(***************************************************************************)
EXTENDS Naturals, Sequences

Sig(n, lo, hi) == [n |-> n, lo |-> lo, hi |-> hi]
Filters ==
  { Sig("abs", 0, 0), Sig("append", 1, 1), Sig("at_least", 1, 1), Sig("at_most", 1, 1), Sig("capitalize", 0, 0), Sig("ceil", 0, 0),
    Sig("compact", 0, 1), Sig("concat", 1, 1), Sig("date", 1, 1), Sig("default", 1, 1), Sig("divided_by", 1, 1), Sig("downcase", 0, 0),
    Sig("escape", 0, 0), Sig("escape_once", 0, 0), Sig("first", 0, 0), Sig("floor", 0, 0), Sig("join", 0, 1), Sig("last", 0, 0),
    Sig("lstrip", 0, 0), Sig("map", 1, 1), Sig("minus", 1, 1), Sig("modulo", 1, 1), Sig("newline_to_br", 0, 0), Sig("plus", 1, 1),
    Sig("prepend", 1, 1), Sig("remove", 1, 1), Sig("remove_first", 1, 1), Sig("replace", 1, 2), Sig("replace_first", 1, 2),
    Sig("reverse", 0, 0), Sig("round", 0, 1), Sig("rstrip", 0, 0), Sig("size", 0, 0), Sig("slice", 1, 2), Sig("sort", 0, 1),
    Sig("sort_natural", 0, 1), Sig("split", 1, 1), Sig("strip", 0, 0), Sig("strip_html", 0, 0), Sig("strip_newlines", 0, 0),
    Sig("times", 1, 1), Sig("truncate", 0, 2), Sig("truncatewords", 0, 2), Sig("uniq", 0, 0), Sig("upcase", 0, 0),
    Sig("url_decode", 0, 0), Sig("url_encode", 0, 0), Sig("where", 1, 2),
    \* jekyll, shopify, extra
    Sig("slugify", 0, 1), Sig("pop", 0, 1), Sig("push", 1, 1), Sig("shift", 0, 1), Sig("unshift", 1, 1),
    Sig("array_to_sentence_string", 0, 1), Sig("pluralize", 2, 2), Sig("date_in_tz", 2, 2) }

\* outcome class for an application with `argc` positional arguments
Class(f, argc) == IF argc < f.lo \/ argc > f.hi THEN "reject" ELSE "returns"
=============================================================================
