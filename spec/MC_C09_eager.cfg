SPECIFICATION Spec
CONSTANTS
  MaxHist = 3
  TripleIds = {"t1", "t2", "t3", "t4"}
  Policy = "eager"
  EmitAll = TRUE
INVARIANTS Inv Emit
PROPERTIES OnlyStoreSurvives
CHECK_DEADLOCK FALSE
