----------------------------- MODULE Trace_Math -----------------------------
(* Trace validation for C15: every recorded outcome of an arithmetic filter *)
(* on the real implementation must be allowed by LiquidFiltersMath.         *)
EXTENDS LiquidFiltersMath, Json, IOUtils

Rec == ndJsonDeserialize(IOEnv.TRACE)
VARIABLE l
Ev == Rec[l]

TraceInit == l = 1
TBinary == /\ l <= Len(Rec) /\ Ev.e = "Eval" /\ Ev.b.k # "none"
           /\ AllowedBinary(Ev.op, Ev.a, Ev.b, Ev.out)
           /\ l' = l + 1
TUnary  == /\ l <= Len(Rec) /\ Ev.e = "Eval" /\ Ev.b.k = "none"
           /\ AllowedUnary(Ev.op, Ev.a, Ev.out)
           /\ l' = l + 1
\* integer divided_by and modulo of the same operands, evaluated back to back
TDivMod == /\ l <= Len(Rec) /\ Ev.e = "DivMod"
           /\ (Ev.q.k = "int" /\ Ev.r.k = "int") =>
                 DivModIdentity(IntOf(Ev.a), IntOf(Ev.b), FromDec(Ev.q.n), FromDec(Ev.r.n))
           /\ l' = l + 1
TEnd == l <= Len(Rec) /\ Ev.e = "End" /\ l' = l + 1
TraceNext == TBinary \/ TUnary \/ TDivMod \/ TEnd
TraceSpec == TraceInit /\ [][TraceNext]_l

TraceAccepted ==
  LET d == TLCGet("stats").diameter IN
  IF d - 1 = Len(Rec) THEN TRUE
  ELSE Print(<<"TRACE-REJECTED at event", d, IF d <= Len(Rec) THEN Rec[d] ELSE "end">>, FALSE)
=============================================================================
