SPECIFICATION Spec
CONSTANTS
  EmitAll = TRUE
  PoolSel = "all"
INVARIANTS Laws Emit
CHECK_DEADLOCK FALSE
