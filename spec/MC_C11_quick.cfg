SPECIFICATION Spec
CONSTANTS
  EmitAll = TRUE
INVARIANTS Laws Emit
CHECK_DEADLOCK FALSE
