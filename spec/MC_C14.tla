------------------------------ MODULE MC_C14 ------------------------------
(* Bounded instance of LiquidFiltersArr for property C14: all arrays of     *)
(* length 0..MaxLen over comparable scalars with duplicates and nils,       *)
(* strings differing only in case, and small objects with a missing / nil / *)
(* false property; property names present, absent.                          *)
EXTENDS LiquidFiltersArr, Json
CONSTANTS MaxLen, MaxObjLen, EmitAll

ScalarPool == {NilV, IntV(1), IntV(2), FloatV(2, 1), StrV("a"), StrV("A"), StrV("b")}
CasePool == {StrV("a"), StrV("A"), StrV("b"), StrV("B"), StrV("ab"), NilV}
O1(k, v) == ObjV([q \in {k} |-> v])
O2(v, w) == ObjV([q \in {"p", "q"} |-> IF q = "p" THEN v ELSE w])
ObjPool == {O1("p", IntV(1)), O1("p", IntV(2)), O1("p", NilV), O1("p", BoolV(FALSE)), O1("q", IntV(1)), O2(IntV(2), IntV(1)),
            O1("p", StrV("B")), O1("p", StrV("a"))}
RECURSIVE Arrays(_, _)
Arrays(P, n) == IF n = 0 THEN {<<>>} ELSE Arrays(P, n - 1) \cup {Append(a, v) : a \in {q \in Arrays(P, n - 1) : Len(q) = n - 1}, v \in P}

F(n, a) == [n |-> n, a |-> a]
ScalarFilters ==
  {F(n, <<>>) : n \in {"sort", "sort_natural", "reverse", "uniq", "compact", "first", "last", "size"}} \cup
  {F("join", <<StrV(",")>>), F("concat", <<ArrV(<<IntV(1), NilV>>)>>), F("concat", <<ArrV(<<>>)>>),
   F("slice", <<IntV(1), IntV(2)>>), F("slice", <<IntV(0 - 2), IntV(3)>>), F("slice", <<IntV(0), IntV(8)>>),
   F("slice", <<IntV(0 - 7), IntV(2)>>), F("map", <<StrV("p")>>), F("where", <<StrV("p")>>),
   F("push", <<IntV(9)>>), F("push", <<NilV>>), F("unshift", <<StrV("u")>>), F("pop", <<>>), F("shift", <<>>),
   F("array_to_sentence_string", <<>>), F("array_to_sentence_string", <<StrV("or")>>)}
ObjFilters ==
  {F(n, <<StrV(pr)>>) : n \in {"sort", "sort_natural", "compact", "map", "where"}, pr \in {"p", "q", "z"}} \cup
  {F("where", <<StrV("p"), v>>) : v \in {IntV(1), FloatV(2, 1), NilV, BoolV(FALSE), StrV("B")}} \cup
  {F(n, <<>>) : n \in {"uniq", "reverse", "size", "first", "last"}}

Seeds == {[pool |-> "scalar", f |-> f] : f \in ScalarFilters} \cup {[pool |-> "case", f |-> f] : f \in {F("sort", <<>>), F("sort_natural", <<>>), F("uniq", <<>>)}} \cup
         {[pool |-> "obj", f |-> f] : f \in ObjFilters} \cup
         \* elements that are themselves arrays / mixed with objects: permutation and totality
         {[pool |-> "mixed", f |-> f] : f \in {F("sort", <<>>), F("sort_natural", <<>>), F("uniq", <<>>), F("compact", <<>>), F("sort", <<StrV("p")>>)}}
MixedPool == {IntV(1), StrV("a"), NilV, BoolV(TRUE), ArrV(<<IntV(1)>>), O1("p", IntV(1))}
CasesOf(sd) ==
  CASE sd.pool = "scalar" -> {[in |-> a, f |-> sd.f] : a \in Arrays(ScalarPool, MaxLen)}
    [] sd.pool = "case"   -> {[in |-> a, f |-> sd.f] : a \in Arrays(CasePool, MaxLen)}
    [] sd.pool = "obj"    -> {[in |-> a, f |-> sd.f] : a \in Arrays(ObjPool, MaxObjLen)}
    [] sd.pool = "mixed"  -> {[in |-> a, f |-> sd.f] : a \in Arrays(MixedPool, MaxObjLen)}

VARIABLE c
Init == c \in Seeds
Next == "in" \notin DOMAIN c /\ c' \in CasesOf(c)
Spec == Init /\ [][Next]_c
IsCase == "in" \in DOMAIN c
Res == ApplyArr(c.f, c.in)
Prop == IF c.f.a # <<>> /\ c.f.a[1].k = "str" THEN c.f.a[1].s ELSE ""

Laws == IsCase =>
  /\ (c.f.n = "sort" /\ "val" \in DOMAIN Res) =>
        /\ StableSortOf(Res.val.a, c.in, "sort", Prop)                                  \* permutation, sorted, stable
        /\ Sort(Res.val.a, "sort", Prop) = Res.val.a                                    \* idempotent
        /\ \A i \in 1..Len(c.in) : IsNil(SortKey(Res.val.a[i], Prop)) =>
              \A j \in i..Len(c.in) : IsNil(SortKey(Res.val.a[j], Prop))                \* nil last
  /\ (c.f.n = "sort_natural" /\ "val" \in DOMAIN Res) => StableSortOf(Res.val.a, c.in, "natural", Prop)
  /\ c.f.n = "reverse" => IsPermutation(Res.val.a, c.in) /\ Reverse(Res.val.a) = c.in
  /\ c.f.n = "uniq" =>
        /\ \A i, j \in 1..Len(Res.val.a) : i # j => ~ValueEq(Res.val.a[i], Res.val.a[j])
        /\ \A i \in 1..Len(c.in) : \E j \in 1..Len(Res.val.a) : ValueEq(Res.val.a[j], c.in[i])
  /\ (c.f.n = "compact" /\ c.f.a = <<>>) =>
        Len(Res.val.a) = Len(c.in) - Cardinality({i \in 1..Len(c.in) : IsNil(c.in[i])})
  /\ (c.f.n = "concat" /\ "val" \in DOMAIN Res) => Len(Res.val.a) = Len(c.in) + Len(c.f.a[1].a)
  /\ c.f.n = "size" => Res.val = IntV(Len(c.in))
  \* plugin filters: push / pop and unshift / shift are inverse pairs, a sentence of at most one element has no separator
  /\ c.f.n = "push" => ApplyArr(F("pop", <<>>), Res.val.a).val.a = c.in /\ Res.val.a[Len(Res.val.a)] = c.f.a[1]
  /\ c.f.n = "unshift" => ApplyArr(F("shift", <<>>), Res.val.a).val.a = c.in /\ Res.val.a[1] = c.f.a[1]
  /\ c.f.n \in {"pop", "shift"} => Len(Res.val.a) = (IF c.in = <<>> THEN 0 ELSE Len(c.in) - 1)
  /\ (c.f.n = "array_to_sentence_string" /\ Len(c.in) <= 1) => Res.val.s = (IF c.in = <<>> THEN "" ELSE ToStr(c.in[1]))
  /\ c.f.n = "first" => Res.val = (IF c.in = <<>> THEN NilV ELSE c.in[1])
  /\ c.f.n = "last" => Res.val = (IF c.in = <<>> THEN NilV ELSE c.in[Len(c.in)])

Record == [p |-> "C14", kind |-> "filter", in |-> ArrV(c.in), chain |-> <<c.f>>, expect |-> Res, nt |-> (Len(c.in) > 1)]
Emit == (EmitAll /\ IsCase) => PrintT(<<"REPLAY", ToJson(Record)>>)
=============================================================================
