SPECIFICATION Spec
CONSTANTS
  MaxRun = 2
  MaxPad = 1
  WideCores = FALSE
  EmitAll = TRUE
INVARIANTS Inv Emit
CHECK_DEADLOCK FALSE
