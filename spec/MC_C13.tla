------------------------------ MODULE MC_C13 ------------------------------
(* Bounded instance of LiquidFiltersStr for property C13: every string up  *)
(* to MaxLen over the 10-character alphabet, arguments up to MaxArg,        *)
(* integer arguments in [-6, 8], chains of filters; the laws of the         *)
(* property are invariants evaluated on every case.                         *)
EXTENDS LiquidFiltersStr, Json

CONSTANTS MaxLen, MaxArg, ChainLen, ChainInLen, EmitAll

Alphabet == {97, 66, SP, LF, TAB, 44, 60, EACUTE, COMBINING, EMOJI, 223, 305}     \* sharp s and dotless i: upper-casing changes length and width
RECURSIVE Strings(_)
Strings(n) == IF n = 0 THEN {<<>>} ELSE Strings(n - 1) \cup {Append(s, c) : s \in {q \in Strings(n - 1) : Len(q) = n - 1}, c \in Alphabet}
\* the two wide characters take part up to length 3 and in one-character arguments; length 4 stays over the ten core characters
WideChars == {223, 305}
RECURSIVE CoreStrings(_)
CoreStrings(n) == IF n = 0 THEN {<<>>} ELSE CoreStrings(n - 1) \cup {Append(s, c) : s \in {q \in CoreStrings(n - 1) : Len(q) = n - 1}, c \in Alphabet \ WideChars}
Inputs == Strings(IF MaxLen > 3 THEN 3 ELSE MaxLen) \cup CoreStrings(MaxLen)
Args   == Strings(1) \cup CoreStrings(MaxArg)
Ints   == (0 - 6)..8
Ellipses == {<<>>, <<46, 46, 46>>, <<EACUTE>>, <<97, COMBINING>>}

F(n, a) == [n |-> n, a |-> a]
NoArg == {"upcase", "downcase", "capitalize", "strip", "lstrip", "rstrip", "strip_newlines", "size", "first", "last", "newline_to_br"}
Links ==
  {F(n, <<>>) : n \in NoArg} \cup
  {F(n, <<StrV(a)>>) : n \in {"append", "prepend", "remove", "remove_first", "split", "default"}, a \in Args} \cup
  {F(n, <<StrV(a), StrV(b)>>) : n \in {"replace", "replace_first"}, a \in Args, b \in {<<>>, <<97>>, <<EACUTE, 44>>}} \cup
  {F(n, <<IntV(i), StrV(e)>>) : n \in {"truncate", "truncatewords"}, i \in Ints, e \in Ellipses} \cup
  {F("slice", <<IntV(i), IntV(l)>>) : i \in Ints, l \in {0 - 1, 0, 1, 2, 3, 8}} \cup
  {F("slice1", <<IntV(i)>>) : i \in Ints}

ChainLinks == {F(n, <<>>) : n \in NoArg \ {"size"}} \cup
              {F("append", <<StrV(<<SP>>)>>), F("remove", <<StrV(<<97>>)>>), F("slice", <<IntV(1), IntV(2)>>),
               F("truncate", <<IntV(2), StrV(<<>>)>>), F("replace", <<StrV(<<SP>>), StrV(<<44>>)>>)}
RECURSIVE Chains(_)
Chains(n) == IF n = 0 THEN {<<>>} ELSE {<<l>> \o c : l \in ChainLinks, c \in Chains(n - 1)}

\* cases are produced in two steps (seed, then case) so that TLC's workers share the enumeration
Seeds == {[seed |-> "link", link |-> l] : l \in Links} \cup
         {[seed |-> "chain", chain |-> ch] : ch \in UNION {Chains(n) : n \in 2..ChainLen}} \cup
         {[seed |-> "join", sep |-> sep] : sep \in {<<>>, <<44>>, <<SP>>, <<EACUTE, 44>>}}
CasesOf(sd) ==
  CASE sd.seed = "link"  -> {[in |-> s, chain |-> <<sd.link>>] : s \in Inputs}
    [] sd.seed = "chain" -> {[in |-> s, chain |-> sd.chain] : s \in Strings(ChainInLen)}
    [] sd.seed = "join"  -> {[in |-> <<>>, chain |-> <<>>, join |-> parts, sep |-> sd.sep] :
                               parts \in UNION {[1..n -> Strings(1)] : n \in 0..3}}

VARIABLE c
Init == c \in Seeds
Next == "seed" \in DOMAIN c /\ c' \in CasesOf(c)
Spec == Init /\ [][Next]_c
IsCase == "seed" \notin DOMAIN c

IsJoin == "join" \in DOMAIN c
Link == c.chain[1]
Single(n) == ~IsJoin /\ Len(c.chain) = 1 /\ Link.n = n
Res == ApplyChain(c.chain, c.in)

(* ---- the laws of the property ---- *)
SplitJoinIdentity ==
  (Single("split") /\ Link.a[1].s # <<>>) => Join(Split(c.in, Link.a[1].s), Link.a[1].s) = c.in
StripIsLstripOfRstrip == Single("strip") => Strip(c.in) = LStrip(RStrip(c.in)) /\ Strip(c.in) = RStrip(LStrip(c.in))
Max(a, b) == IF a > b THEN a ELSE b
TruncateBound ==
  (Single("truncate") /\ Link.a[1].n >= 0) =>
     LET r == Truncate(c.in, Link.a[1].n, Link.a[2].s) IN
     /\ (GLen(r) <= Max(Link.a[1].n, GLen(Link.a[2].s)) \/ (r = c.in /\ GLen(c.in) <= Link.a[1].n))
     /\ r # c.in => StartsWith(c.in, SubSeq(r, 1, Len(r) - Len(Link.a[2].s)))
SliceContiguous ==
  (Single("slice") /\ Link.a[2].n >= 1) =>
     LET r == Slice(c.in, Link.a[1].n, Link.a[2].n) IN
     /\ Len(r) <= Link.a[2].n
     /\ \E i \in 0..Len(c.in) : i + Len(r) <= Len(c.in) /\ SubSeq(c.in, i + 1, i + Len(r)) = r
SizeCountsCharacters == Single("size") => Res = ValR(IntV(Len(c.in)))
CapitalizeOnlyFirst == (Single("capitalize") /\ c.in # <<>>) => (Tail(Capitalize(c.in)) = Tail(c.in) \/ c.in[1] = 223)
ReplaceFirstIsPrefixOfReplace ==
  (Single("replace") /\ Link.a[1].s # <<>> /\ Find(c.in, Link.a[1].s) # 0) =>
     LET i == Find(c.in, Link.a[1].s) IN
     SubSeq(Replace(c.in, Link.a[1].s, Link.a[2].s), 1, i - 1 + Len(Link.a[2].s)) =
     SubSeq(ReplaceFirst(c.in, Link.a[1].s, Link.a[2].s), 1, i - 1 + Len(Link.a[2].s))
DefaultLaw == Single("default") => Res = ValR(IF c.in = <<>> THEN Link.a[1] ELSE StrV(c.in))
JoinThenSplit ==
  (IsJoin /\ c.sep # <<>> /\ Len(c.join) > 0 /\ \A i \in 1..Len(c.join) : Find(c.join[i], c.sep) = 0
      /\ (Len(c.join) > 1 \/ c.join[1] # <<>>)) =>
     Split(Join(c.join, c.sep), c.sep) = c.join
Laws == IsCase =>
        /\ SplitJoinIdentity /\ StripIsLstripOfRstrip /\ TruncateBound /\ SliceContiguous /\ SizeCountsCharacters
        /\ CapitalizeOnlyFirst /\ ReplaceFirstIsPrefixOfReplace /\ DefaultLaw /\ JoinThenSplit

EmitChain(ch) == [i \in 1..Len(ch) |-> [n |-> FilterName(ch[i].n), a |-> ch[i].a]]
Record ==
  IF IsJoin THEN
    [p |-> "C13", kind |-> "filter", in |-> ArrV([i \in 1..Len(c.join) |-> StrV(c.join[i])]),
     chain |-> <<[n |-> "join", a |-> <<StrV(c.sep)>>]>>, expect |-> ValR(StrV(Join(c.join, c.sep))), nt |-> TRUE]
  ELSE
    [p |-> "C13", kind |-> "filter", in |-> StrV(c.in), chain |-> EmitChain(c.chain), expect |-> Res,
     nt |-> (c.in # <<>>)]
Emit == (EmitAll /\ IsCase) => PrintT(<<"REPLAY", ToJson(Record)>>)
=============================================================================
