SPECIFICATION LSpec
CONSTANTS
  MaxPieces = 0
  MaxPhrase = 0
  MaxTmpl = 3
  MaxDeep = 0
  Hosts = {"partial"}
  EmitAll = TRUE
INVARIANTS Emit
CHECK_DEADLOCK FALSE
