------------------------- MODULE LiquidPartialsBase -------------------------
(* Constant-level part of LiquidPartials: the names a partial source knows, *)
(* their declarative meaning and the effect of a cache miss.  Shared by the *)
(* thread-level specification and by the trace specification.               *)
EXTENDS Naturals, FiniteSets, TLC

CONSTANTS Threads,     \* thread identities
          Valid,       \* names whose source exists and parses
          Broken,      \* names whose source exists and does not parse
          Absent,      \* names the source does not have
          MaxCalls     \* calls per thread

Names == Valid \cup Broken \cup Absent
NoThread == "none"

\* declarative meaning of a name, the same for every policy and schedule
Decl(n) == IF n \in Valid THEN "template" ELSE IF n \in Broken THEN "parse-error" ELSE "missing"

\* the whole critical section of a call that misses, as one step (what a
\* recorded Miss event of the implementation stands for)
MissEffect(c, n) == IF n \in Absent THEN c
                    ELSE [q \in DOMAIN c \cup {n} |-> IF q = n THEN Decl(n) ELSE c[q]]
=============================================================================
