SPECIFICATION LSpec
CONSTANTS
  MaxPieces = 3
  MaxPhrase = 4
  MaxTmpl = 0
  Hosts = {"out", "assign"}
  EmitAll = TRUE
INVARIANTS Emit
CHECK_DEADLOCK FALSE
