------------------------ MODULE LiquidPartials_proofs ------------------------
(***************************************************************************)
(* TLAPS proof, for ANY set of threads, ANY sets of names and ANY number   *)
(* of calls, of what TLC checks for 2-3 threads in MC_C20: the cache lock  *)
(* is held by exactly the thread inside the critical section, and no       *)
(* partial is ever compiled twice (C20).                                   *)
(***************************************************************************)
EXTENDS LiquidPartials, TLAPS

ASSUME ConstAssump == /\ NoThread \notin Threads /\ MaxCalls \in Nat
                      /\ Absent \cap (Valid \cup Broken) = {}

PCs == {"idle", "acquire", "check", "read", "compile", "insert", "release", "return"}

TypeOK == /\ pc \in [Threads -> PCs]
          /\ res \in [Threads -> {"-", "template", "parse-error", "missing"}]
          /\ req \in [Threads -> Names \cup {"-"}]
          /\ lock \in Threads \cup {NoThread}
          /\ compiles \in [Names -> Nat]
          /\ \A t \in Threads : pc[t] # "idle" => req[t] \in Names

IndInv == /\ TypeOK
          /\ LockMatchesInside
          /\ \A n \in Names : compiles[n] <= 1
          /\ \A n \in Names : compiles[n] = 1 =>
                 (n \in DOMAIN cache \/ \E t \in Threads : pc[t] = "insert" /\ req[t] = n)
          /\ \A t \in Threads : pc[t] \in {"read", "compile"} =>
                 req[t] \notin DOMAIN cache /\ compiles[req[t]] = 0
          /\ CacheRefinesDecl
          /\ \A t \in Threads : pc[t] \in {"compile", "insert"} => req[t] \notin Absent
          /\ \A t \in Threads : pc[t] \in {"insert", "release", "return"} => res[t] = Decl(req[t])

LEMMA InitInv == PInit => IndInv
  BY ConstAssump DEF PInit, IndInv, TypeOK, LockMatchesInside, Inside, PCs, NoThread, CacheRefinesDecl, Decl, Names

LEMMA StepInv == IndInv /\ [PNext]_pvars => IndInv'
<1> SUFFICES ASSUME IndInv, [PNext]_pvars PROVE IndInv'
  OBVIOUS
<1> USE ConstAssump DEF IndInv, TypeOK, LockMatchesInside, Inside, PCs, NoThread, Goto, CacheRefinesDecl, Decl, Names
<1>1 CASE UNCHANGED pvars
  BY <1>1, SMTT(300) DEF pvars
<1>2 ASSUME NEW t \in Threads, NEW n \in Names, Call(t, n) PROVE IndInv'
  BY <1>2, SMTT(300) DEF Call
<1>3 ASSUME NEW t \in Threads, Acquire(t) PROVE IndInv'
  BY <1>3, SMTT(300) DEF Acquire
<1>4 ASSUME NEW t \in Threads, CheckHit(t) PROVE IndInv'
  BY <1>4, SMTT(300) DEF CheckHit
<1>5 ASSUME NEW t \in Threads, ReadSource(t) PROVE IndInv'
  BY <1>5, SMTT(300) DEF ReadSource
<1>6 ASSUME NEW t \in Threads, Compile(t) PROVE IndInv'
  BY <1>6, SMTT(300) DEF Compile
<1>7 ASSUME NEW t \in Threads, Insert(t) PROVE IndInv'
  BY <1>7, SMTT(300) DEF Insert
<1>8 ASSUME NEW t \in Threads, Release(t) PROVE IndInv'
  BY <1>8, SMTT(300) DEF Release
<1>9 ASSUME NEW t \in Threads, Return(t) PROVE IndInv'
  BY <1>9, SMTT(300) DEF Return
<1> QED
  BY <1>1, <1>2, <1>3, <1>4, <1>5, <1>6, <1>7, <1>8, <1>9 DEF PNext

THEOREM Safety == PSpec => [](MutualExclusion /\ AtMostOneCompilePerName /\ NoPoison /\ CacheRefinesDecl /\ ResultIndependentOfSchedule)
<1>1 PSpec => []IndInv
  BY InitInv, StepInv, PTL DEF PSpec
<1>2 IndInv => MutualExclusion /\ AtMostOneCompilePerName /\ NoPoison /\ CacheRefinesDecl /\ ResultIndependentOfSchedule
  BY ConstAssump DEF IndInv, TypeOK, LockMatchesInside, MutualExclusion, AtMostOneCompilePerName, NoPoison, Inside, NoThread, ResultIndependentOfSchedule
<1> QED
  BY <1>1, <1>2, PTL
=============================================================================
