//! C18: replay of LiquidRuntime operation sequences on the real frame types
//! (`StackFrame`, `SandboxedStackFrame`, `GlobalFrame` over
//! `RuntimeBuilder::build()`), observed only through the public `Runtime` trait.
use crate::Outcome;
use liquid_core::model::{Object, Scalar, Value, ValueView};
use liquid_core::runtime::{GlobalFrame, RuntimeBuilder, SandboxedStackFrame, StackFrame};
use liquid_core::Runtime;
use serde_json::{json, Value as J};

const KEYS: [&str; 2] = ["a", "b"];
const SUBS: [&str; 3] = ["x", "size", "y"];
const PSEUDO: [&str; 4] = ["size", "first", "last", "nosuch"];

#[derive(Default)]
struct Marker(u64);

fn dec_value(n: i64) -> Option<Value> {
    if n == 0 {
        None
    } else if n >= 1000 {
        let mut o = Object::new();
        o.insert("x".into(), Value::scalar(n - 1000));
        Some(Value::Object(o))
    } else {
        Some(Value::scalar(n))
    }
}

fn dec_map(m: &J) -> Object {
    let mut o = Object::new();
    for k in KEYS {
        if let Some(v) = m.get(k).and_then(|v| v.as_i64()).and_then(dec_value) {
            o.insert(k.into(), v);
        }
    }
    o
}

fn enc_view(v: &dyn ValueView) -> i64 {
    if let Some(s) = v.as_scalar() {
        return s.to_integer().unwrap_or(-999);
    }
    if let Some(o) = v.as_object() {
        if o.size() == 1 {
            if let Some(x) = o.get("x").and_then(|x| x.as_scalar()).and_then(|s| s.to_integer()) {
                return 1000 + x;
            }
        }
    }
    -999
}

fn observe(rt: &dyn Runtime) -> J {
    let mut t = Vec::new();
    let mut g = Vec::new();
    for k in KEYS {
        for j in 0..4 {
            let mut path = vec![Scalar::new(k)];
            if j > 0 {
                path.push(Scalar::new(SUBS[j - 1]));
            }
            t.push(rt.try_get(&path).map(|v| enc_view(v.as_view())).unwrap_or(0));
            g.push(match rt.get(&path) {
                Ok(v) => enc_view(v.as_view()),
                Err(_) => 0,
            });
        }
    }
    // root names nobody defines, among them the pseudo-keys model/find.rs answers for any object or array
    let mut u = Vec::new();
    for k in PSEUDO {
        let path = [Scalar::new(k)];
        u.push(rt.try_get(&path).map(|v| enc_view(v.as_view())).unwrap_or(0));
        u.push(match rt.get(&path) {
            Ok(v) => enc_view(v.as_view()),
            Err(_) => 0,
        });
    }
    let roots = rt.roots();
    let r: Vec<i64> = KEYS
        .iter()
        .map(|k| roots.iter().any(|x| x.as_str() == *k) as i64)
        .collect();
    let extra_roots = roots.iter().filter(|x| !KEYS.contains(&x.as_str())).count();
    let i: Vec<i64> = KEYS
        .iter()
        .map(|k| rt.get_index(k).map(|v| enc_view(v.as_view())).unwrap_or(0))
        .collect();
    json!({"t": t, "get": g, "r": r, "i": i, "u": u, "extra_roots": extra_roots})
}

fn check_obs(rt: &dyn Runtime, want: &J, at: &str) -> Result<(), J> {
    let got = observe(rt);
    let bad = got["t"] != want["t"]
        || got["get"] != want["t"]
        || got["r"] != want["r"]
        || got["i"] != want["i"]
        || got["u"] != want["u"]
        || got["extra_roots"] != 0;
    if bad {
        Err(json!({"why": "observation differs from LiquidRuntime", "at": at, "got": got, "want": want}))
    } else {
        Ok(())
    }
}

struct Ctx<'r> {
    ops: &'r [J],
    tops: &'r [J],
    fin: &'r J,
}

fn finish(live: &[&dyn Runtime], cx: &Ctx<'_>) -> Result<(), J> {
    // every live observable frame, bottom (builder's global frame, position 4) first
    for (n, rt) in live.iter().enumerate() {
        let pos = 4 + n;
        let want = &cx.fin[pos.to_string()];
        check_obs(*rt, want, &format!("final frame {pos}"))?;
        let owner = {
            let mut m = rt.registers().get_mut::<Marker>();
            if m.0 == 0 {
                m.0 = pos as u64;
            }
            m.0
        };
        if Some(owner) != want["g"].as_u64() {
            return Err(json!({"why": "registers owner differs", "frame": pos, "got": owner, "want": want["g"]}));
        }
    }
    if cx.fin.as_object().map(|o| o.len()) != Some(live.len()) {
        return Err(json!({"why": "harness: frame count differs", "live": live.len()}));
    }
    Ok(())
}

/// Executes ops[i..] with `live.last()` as the current top; returns the index
/// after the `Pop` that drops this frame (or ops.len()).
fn exec(live: &[&dyn Runtime], mut i: usize, cx: &Ctx<'_>) -> Result<usize, J> {
    let top: &dyn Runtime = *live.last().unwrap();
    loop {
        if i == cx.ops.len() {
            finish(live, cx)?;
            return Ok(i + 1); // sentinel: beyond the end
        }
        if i > cx.ops.len() {
            return Ok(i);
        }
        let op = &cx.ops[i];
        let name = op["op"].as_str().unwrap_or("");
        match name {
            "PushPlain" | "PushSandbox" | "PushGlobal" => {
                let data = dec_map(&op["d"]);
                let next = match name {
                    "PushPlain" => {
                        let f = StackFrame::new(top, data);
                        let mut l2: Vec<&dyn Runtime> = live.to_vec();
                        l2.push(&f);
                        check_obs(&f, &cx.tops[i], &format!("after op {}", i + 1))?;
                        exec(&l2, i + 1, cx)?
                    }
                    "PushSandbox" => {
                        let f = SandboxedStackFrame::new(top, data);
                        let mut l2: Vec<&dyn Runtime> = live.to_vec();
                        l2.push(&f);
                        check_obs(&f, &cx.tops[i], &format!("after op {}", i + 1))?;
                        exec(&l2, i + 1, cx)?
                    }
                    _ => {
                        let f = GlobalFrame::new(top);
                        let mut l2: Vec<&dyn Runtime> = live.to_vec();
                        l2.push(&f);
                        check_obs(&f, &cx.tops[i], &format!("after op {}", i + 1))?;
                        exec(&l2, i + 1, cx)?
                    }
                };
                if next > cx.ops.len() {
                    return Ok(next);
                }
                // the frame was popped by op next-1: we are the top again
                check_obs(top, &cx.tops[next - 1], &format!("after op {}", next))?;
                i = next;
            }
            "Pop" => return Ok(i + 1),
            "SetGlobal" | "SetIndex" => {
                let k = op["key"].as_str().unwrap_or("");
                let v = Value::scalar(op["v"].as_i64().unwrap_or(0));
                if name == "SetGlobal" {
                    top.set_global(k.to_owned().into(), v);
                } else {
                    top.set_index(k.to_owned().into(), v);
                }
                check_obs(top, &cx.tops[i], &format!("after op {}", i + 1))?;
                i += 1;
            }
            _ => return Err(json!({"why": "harness: unknown op", "op": op})),
        }
    }
}

pub fn run(rec: &J) -> Outcome {
    let empty = Vec::new();
    let ops = rec["ops"].as_array().unwrap_or(&empty);
    let tops = rec["tops"].as_array().unwrap_or(&empty);
    let has = |names: &[&str]| ops.iter().any(|o| names.contains(&o["op"].as_str().unwrap_or("")));
    let nontrivial = has(&["PushPlain", "PushSandbox", "PushGlobal"]) && has(&["SetGlobal", "SetIndex", "Pop"]);
    let base = dec_map(&rec["base"]);
    // the history is recorded as one scope-frame hook trace (validated against Trace_Frames when the driver asks for it)
    liquid_core::runtime::verif_trace::discard_if_idle();
    liquid_core::runtime::verif_trace::begin();
    let rt = RuntimeBuilder::new().set_globals(&base).build();
    let cx = Ctx { ops, tops, fin: &rec["final"] };
    let live: Vec<&dyn Runtime> = vec![&rt];
    let r = exec(&live, 0, &cx);
    liquid_core::runtime::verif_trace::end(r.is_ok());
    match r {
        Ok(_) => Outcome::ok(nontrivial),
        Err(d) => Outcome::fail(nontrivial, d),
    }
}
