//! Replay of `date` records (C17): default print / parse round trip, the
//! other accepted spellings, and `{{ ts | date: fmt }}` against LiquidDates.
use crate::val::dec_text;
use crate::Outcome;
use liquid_core::model::{DateTime, Value};
use serde_json::{json, Value as J};

thread_local! {
    static TEMPLATE: liquid::Template = liquid::ParserBuilder::with_stdlib().build().expect("parser")
        .parse("{{ ts | date: fmt }}").expect("template");
}

pub fn run(rec: &J) -> Outcome {
    let nontrivial = rec.get("nt").and_then(|x| x.as_bool()).unwrap_or(true);
    let fail = |why: &str, extra: J| Outcome::fail(nontrivial, json!({"why": why, "info": extra}));
    let (ts, fmt) = match (dec_text(&rec["ts"]), dec_text(&rec["fmt"])) {
        (Some(a), Some(b)) => (a, b),
        _ => return fail("harness: bad record", json!(null)),
    };
    let dt = match DateTime::from_str(&ts) {
        Some(d) => d,
        None => return fail("default printed form was rejected by the date parser", json!({"ts": ts})),
    };
    if dt.to_string() != ts {
        return fail("a parsed date-time prints differently from the text it was parsed from",
                    json!({"ts": ts, "printed": dt.to_string()}));
    }
    if DateTime::from_str(&dt.to_string()) != Some(dt) {
        return fail("print / parse round trip changes the date-time", json!({"ts": ts}));
    }
    for alt in rec["alt"].as_array().map(|v| v.as_slice()).unwrap_or(&[]) {
        let a = dec_text(alt).unwrap_or_default();
        match DateTime::from_str(&a) {
            Some(d) if d == dt && d.to_string() == ts => {}
            other => {
                return fail("an accepted spelling denotes a different date-time",
                            json!({"ts": ts, "spelling": a, "parsed": other.map(|d| d.to_string())}))
            }
        }
    }
    let mut g = liquid::Object::new();
    g.insert("ts".into(), Value::scalar(dt));
    g.insert("fmt".into(), Value::scalar(fmt.clone()));
    let mut buf = Vec::new();
    let r = TEMPLATE.with(|t| t.render_to(&mut buf, &g));
    let want = &rec["expect"];
    let text = match String::from_utf8(buf) {
        Ok(t) => t,
        Err(_) => return fail("render emitted invalid UTF-8", json!({"fmt": fmt})),
    };
    if want.get("any").is_some() {
        return Outcome::ok(nontrivial);
    }
    match (r, want.get("err").is_some()) {
        (Err(_), true) => Outcome::ok(nontrivial),
        (Err(e), false) => fail("date filter failed where the specification defines a value", json!({"ts": ts, "fmt": fmt, "err": e.to_string()})),
        (Ok(()), true) => fail("date filter accepted a malformed format", json!({"ts": ts, "fmt": fmt, "got": text})),
        (Ok(()), false) => {
            let w = dec_text(&want["val"]).unwrap_or_default();
            if text == w { Outcome::ok(nontrivial) } else {
                fail("date filter output differs from LiquidDates", json!({"ts": ts, "fmt": fmt, "got": text, "want": w}))
            }
        }
    }
}
