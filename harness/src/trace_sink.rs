//! C10 (binding B): records what a failing / short-writing sink observes from
//! real `Template::render_to` calls as ndjson for Trace_Sink.tla.
use crate::ast;
use crate::render::{build_parser, partial_sources};
use crate::val::dec_object;
use serde_json::{json, Value as J};
use std::io::Write;

/// A sink that accepts `chunk` bytes per call (0 = everything) and fails at
/// physical call number `fail_at` (0 = never), logging every call.
struct Sink<'a> {
    fail_at: usize,
    chunk: usize,
    calls: usize,
    log: &'a mut Vec<J>,
    taken: Vec<u8>,
}

impl Write for Sink<'_> {
    fn write(&mut self, buf: &[u8]) -> std::io::Result<usize> {
        self.calls += 1;
        let offered: Vec<u64> = buf.iter().map(|b| *b as u64).collect();
        if self.calls == self.fail_at {
            self.log.push(json!({"e": "Write", "n": self.calls, "offered": offered, "took": 0, "ok": false}));
            return Err(std::io::Error::new(std::io::ErrorKind::Other, "injected sink failure"));
        }
        let n = if self.chunk == 0 { buf.len() } else { self.chunk.min(buf.len()) };
        if n == 0 {
            // an empty offer: nothing to accept; not an event of the specification
            self.calls -= 1;
            return Ok(0);
        }
        self.taken.extend_from_slice(&buf[..n]);
        self.log.push(json!({"e": "Write", "n": self.calls, "offered": offered, "took": n, "ok": true}));
        Ok(n)
    }
    fn flush(&mut self) -> std::io::Result<()> {
        Ok(())
    }
}

pub fn main(args: &[String]) -> i32 {
    let mut corpus = String::new();
    let mut out = String::new();
    let mut max_programs = usize::MAX;
    let mut seed = 1u64;
    let mut i = 0;
    while i < args.len() {
        match args[i].as_str() {
            "--corpus" => { corpus = args[i + 1].clone(); i += 2; }
            "--out" => { out = args[i + 1].clone(); i += 2; }
            "--max" => { max_programs = args[i + 1].parse().unwrap(); i += 2; }
            "--seed" => { seed = args[i + 1].parse().unwrap(); i += 2; }
            _ => i += 1,
        }
    }
    let text = std::fs::read_to_string(&corpus).expect("corpus");
    let mut lines: Vec<&str> = text.lines().filter(|l| !l.is_empty()).collect();
    // multi-byte text (the specification's strings are ASCII): short writes end inside characters
    let extra: Vec<String> = [
        "n\u{e9}e {{ 'x' }}\u{65e5}\u{672c}{% if true %}\u{1f600}{% endif %}",
        "{% raw %}\u{fc}{{ \u{1f600} }}{% endraw %}\u{e9}",
        "{% for i in (1..2) %}\u{e9}{{ i }}{% endfor %}{% capture c %}\u{65e5}{% endcapture %}{{ c }}{% ifchanged %}\u{fc}{% endifchanged %}",
        "{{ '\u{e9}\u{1f600}' }}{{ '\u{e9}' | upcase }}{% cycle '\u{65e5}', 'b' %}",
    ]
    .iter()
    .map(|s| json!({"src": s, "parts": {}, "data": {}}).to_string())
    // values whose printed form is produced piecewise (arrays, objects, nested): one logical write, many physical ones
    .chain(["{{ arr }}|{{ nest }}", "{% for x in nest %}{{ x }};{% endfor %}{{ arr | join: ', ' }}{{ obj }}"].iter().map(|s| {
        json!({"src": s, "parts": {}, "data": {
            "arr": {"k": "arr", "a": [{"k": "int", "n": 1}, {"k": "str", "s": "two"}, {"k": "int", "n": 3}]},
            "nest": {"k": "arr", "a": [{"k": "arr", "a": [{"k": "int", "n": 4}, {"k": "int", "n": 5}]}, {"k": "str", "s": "x"}]},
            "obj": {"k": "obj", "o": {"k": {"k": "int", "n": 9}}}}})
        .to_string()
    }))
    // a partial stored under both spellings: a failure inside it is final, there is no second try under the other name
    .chain(["{% render 'x' %}|{% render 'x' for (1..2) as i %}|{% include 'x' %}"].iter().map(|s| {
        json!({"src": s, "data": {}, "parts": {"x": {"ok": true, "src": "ab{{ 'c' }}d"}, "x.liquid": {"ok": true, "src": "XYZ"}}}).to_string()
    }))
    .collect();
    let n_corpus = lines.len();
    lines.extend(extra.iter().map(|s| s.as_str()));
    // a seeded stride through the corpus when it is larger than --max
    let stride = if lines.len() > max_programs { lines.len() / max_programs } else { 1 };
    let offset = if stride > 1 { (seed as usize) % stride } else { 0 };
    let mut f = std::io::BufWriter::new(std::fs::File::create(&out).expect("out"));
    let (mut traces, mut events, mut programs, mut nontrivial) = (0u64, 0u64, 0u64, 0u64);
    let mut samples: Vec<J> = Vec::new();
    std::panic::set_hook(Box::new(|_| {}));
    for (idx, line) in lines.iter().enumerate() {
        if idx < n_corpus && (idx % stride != offset || programs as usize >= max_programs) {
            continue;
        }
        let rec: J = serde_json::from_str(line).expect("json");
        let src = match rec.get("src").and_then(|s| s.as_str()) {
            Some(s) => s.to_string(),
            None => ast::block(&rec["prog"]).expect("print"),
        };
        let parts = partial_sources(&rec["parts"]).expect("parts");
        let data = dec_object(&rec["data"]).expect("data");
        let parser = build_parser("eager", &parts).expect("parser");
        let template = match parser.parse(&src) {
            Ok(t) => t,
            Err(_) => continue, // reported by binding A
        };
        programs += 1;
        // fault-free run: W physical calls, and the bytes the spec's output must equal (binding A)
        let mut log = Vec::new();
        let mut s0 = Sink { fail_at: 0, chunk: 0, calls: 0, log: &mut log, taken: Vec::new() };
        let r0 = template.render_to(&mut s0, &data);
        let w = s0.calls;
        let full: Vec<u64> = s0.taken.iter().map(|b| *b as u64).collect();
        let mut emit = |j: &J| { let _ = writeln!(f, "{}", j); };
        for chunk in [0usize, 1] {
            // chunk 1: one byte per call, so calls are counted afresh
            let wk = if chunk == 0 { w } else { full.len() };
            for k in 0..=wk {
                if chunk == 1 && k > 0 && k < wk && k % 3 != 0 && wk > 12 {
                    continue; // thin out the byte-wise runs of long outputs
                }
                let mut log = Vec::new();
                let ret = {
                    let mut s = Sink { fail_at: k, chunk, calls: 0, log: &mut log, taken: Vec::new() };
                    let r = std::panic::catch_unwind(std::panic::AssertUnwindSafe(|| template.render_to(&mut s, &data)));
                    r.ok().map(|r| r.is_ok())
                };
                emit(&json!({"e": "Reset", "full": full, "ffok": r0.is_ok(), "k": k, "chunk": chunk, "src": src}));
                events += 1;
                for ev in &log {
                    emit(ev);
                    events += 1;
                }
                if let Some(ok) = ret {
                    // a panic leaves the call without its Return: no action of the spec explains that
                    emit(&json!({"e": "Return", "ok": ok}));
                    events += 1;
                }
                traces += 1;
                if k > 0 {
                    nontrivial += 1;
                }
                if samples.len() < 3 && k == 2 {
                    samples.push(json!({"src": src, "fail_at_call": k, "chunk": chunk, "events": log}));
                }
            }
        }
        let _ = r0;
    }
    emit_end(&mut f);
    events += 1;
    let _ = f.flush();
    println!("TRACEINFO {}", json!({"traces": traces, "events": events, "programs": programs,
        "cases": traces, "nontrivial": nontrivial, "samples": samples}));
    0
}

fn emit_end(f: &mut impl Write) {
    let _ = writeln!(f, "{}", json!({"e": "End"}));
}
