//! C14 (binding B): array filters on random arrays of up to 60 elements
//! (beyond the length where the standard sort changes algorithm), in every
//! kind of initial order and with mixed incomparable types; records
//! Eval events for Trace_Eval.tla.
use crate::util::Rng;
use liquid_core::model::{Value, ValueView};
use serde_json::{json, Value as J};
use std::io::Write;

fn enc(v: &dyn ValueView) -> J {
    // the LiquidValues encoding with native TLC ints / strings and num/den floats
    if v.is_nil() {
        return json!({"k": "nil"});
    }
    if let Some(a) = v.as_array() {
        return json!({"k": "arr", "a": a.values().map(enc).collect::<Vec<_>>()});
    }
    if let Some(o) = v.as_object() {
        let mut m = serde_json::Map::new();
        for (k, x) in o.iter() {
            m.insert(k.to_string(), enc(x));
        }
        return json!({"k": "obj", "o": m});
    }
    if let Some(s) = v.as_scalar() {
        return match s.type_name() {
            "whole number" => json!({"k": "int", "n": s.to_integer().unwrap_or(0)}),
            "fractional number" => {
                let f = s.to_float().unwrap_or(0.0);
                json!({"k": "float", "num": (f * 2.0) as i64, "den": 2})
            }
            "boolean" => json!({"k": "bool", "b": s.to_bool().unwrap_or(false)}),
            _ => json!({"k": "str", "s": s.to_kstr().as_str()}),
        };
    }
    json!({"k": "unknown"})
}

fn element(rng: &mut Rng, mode: usize) -> Value {
    let ints = |r: &mut Rng| Value::scalar(r.below(7) as i64 - 1);
    let strs = |r: &mut Rng| Value::scalar(*r.pick(&["a", "B", "b", "aa", "A", "", "ab"]));
    match mode {
        0 => ints(rng),
        1 => match rng.below(4) { 0 => Value::Nil, 1 => Value::scalar((rng.below(9) as f64) / 2.0), _ => ints(rng) },
        2 => if rng.chance(1, 6) { Value::Nil } else { strs(rng) },
        _ => match rng.below(6) {
            0 => Value::Nil,
            1 => strs(rng),
            2 => Value::scalar(rng.chance(1, 2)),
            3 => Value::Array(vec![ints(rng)]),
            _ => ints(rng),
        },
    }
}

pub fn main(args: &[String]) -> i32 {
    let (mut out, mut seed, mut cases) = (String::new(), 1u64, 300usize);
    let mut i = 0;
    while i < args.len() {
        match args[i].as_str() {
            "--out" => { out = args[i + 1].clone(); i += 2; }
            "--seed" => { seed = args[i + 1].parse().unwrap(); i += 2; }
            "--cases" => { cases = args[i + 1].parse().unwrap(); i += 2; }
            _ => i += 1,
        }
    }
    std::panic::set_hook(Box::new(|_| {}));
    let mut rng = Rng::new(seed);
    let parser = liquid::ParserBuilder::with_stdlib().build().expect("parser");
    let filters = ["sort", "sort_natural", "uniq", "reverse", "compact", "first", "last", "size"];
    let mut f = std::io::BufWriter::new(std::fs::File::create(&out).expect("out"));
    let (mut events, mut nontrivial) = (0u64, 0u64);
    let mut samples = Vec::new();
    for case in 0..cases {
        let len = match rng.below(4) { 0 => rng.below(6), 1 => 18 + rng.below(6), _ => rng.below(61) };
        let mode = rng.below(4);
        let mut arr: Vec<Value> = (0..len).map(|_| element(&mut rng, mode)).collect();
        // initial orders: as drawn, ascending-ish, descending-ish, organ pipe
        match rng.below(4) {
            1 => arr.sort_by(|a, b| a.to_kstr().cmp(&b.to_kstr())),
            2 => { arr.sort_by(|a, b| a.to_kstr().cmp(&b.to_kstr())); arr.reverse(); }
            3 => { arr.sort_by(|a, b| a.to_kstr().cmp(&b.to_kstr())); let h = arr.len() / 2; arr[h..].reverse(); }
            _ => {}
        }
        // every third case: objects that share (or lack) the sort key and differ in another field
        let objects = case % 3 == 2;
        if objects {
            arr = (0..len)
                .map(|i| {
                    let mut o = liquid::Object::new();
                    match rng.below(5) {
                        0 => {}
                        1 => { o.insert("p".into(), Value::Nil); }
                        _ => { o.insert("p".into(), Value::scalar(rng.below(3) as i64)); }
                    }
                    o.insert("id".into(), Value::scalar(i as i64));
                    Value::Object(o)
                })
                .collect();
        }
        let obj_filters = ["sort: 'p'", "sort_natural: 'p'", "compact: 'p'", "map: 'p'", "where: 'p'", "uniq", "reverse", "where: 'p', 1"];
        let name = if objects { obj_filters[(case / 3) % obj_filters.len()] } else { filters[case % filters.len()] };
        let input = Value::Array(arr);
        let globals = liquid::object!({"in": input.clone()});
        let src = format!("{{% assign r = in | {name} %}}");
        // evaluate through the template, read the structural result back from the runtime via a second render
        let res = std::panic::catch_unwind(std::panic::AssertUnwindSafe(|| {
            let t = parser.parse(&format!("{src}{{{{ r | size }}}}")).expect("parse");
            let _ = t;
            // structural result: call the filter chain directly through a capturing dump
            crate::filter::eval_structural(name, &input)
        }));
        let outj = match res {
            Ok(Ok(v)) => enc(&v),
            Ok(Err(_)) => json!({"k": "error"}),
            Err(_) => json!({"k": "panic"}),
        };
        let _ = globals;
        // "sort: 'p'" -> {"n": "sort", "a": [{"k":"str","s":"p"}]}
        let (fname, fargs): (&str, Vec<J>) = match name.split_once(": ") {
            None => (name, vec![]),
            Some((n, rest)) => (n, rest.split(", ").map(|a| {
                if let Some(t) = a.strip_prefix('\'') { json!({"k": "str", "s": t.trim_end_matches('\'')}) }
                else { json!({"k": "int", "n": a.parse::<i64>().unwrap_or(0)}) }
            }).collect()),
        };
        let ev = json!({"e": "Eval", "f": {"n": fname, "a": fargs}, "in": enc(&input)["a"], "out": outj});
        let _ = writeln!(f, "{}", ev);
        events += 1;
        if len > 20 { nontrivial += 1; }
        if samples.len() < 2 && len > 3 && len < 9 { samples.push(ev); }
    }
    let _ = writeln!(f, "{}", json!({"e": "End"}));
    let _ = f.flush();
    println!("TRACEINFO {}", json!({"traces": 1, "events": events + 1, "cases": events, "nontrivial": nontrivial, "samples": samples}));
    0
}
