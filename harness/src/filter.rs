//! Replay of `filter` records: `{{ in | f: a1, a2 | __dump }}` with the input
//! and the arguments supplied as globals, the result read back structurally.
use crate::val::{dec_value, enc_value};
use crate::Outcome;
use liquid_core::{Display_filter, Filter, FilterReflection, ParseFilter};
use liquid_core::{Result as LResult, Runtime, Value, ValueView};
use serde_json::{json, Value as J};

#[derive(Clone, ParseFilter, FilterReflection)]
#[filter(name = "__dump", description = "harness: structural dump of the input", parsed(DumpFilter))]
pub struct Dump;

#[derive(Debug, Default, Display_filter)]
#[name = "__dump"]
struct DumpFilter;

impl Filter for DumpFilter {
    fn evaluate(&self, input: &dyn ValueView, _runtime: &dyn Runtime) -> LResult<Value> {
        Ok(Value::scalar(enc_value(input).to_string()))
    }
}

thread_local! {
    static PARSER: liquid::Parser = liquid::ParserBuilder::with_stdlib()
        .filter(Dump)
        .filter(liquid_lib::jekyll::Slugify).filter(liquid_lib::jekyll::Pop).filter(liquid_lib::jekyll::Push)
        .filter(liquid_lib::jekyll::Shift).filter(liquid_lib::jekyll::Unshift)
        .filter(liquid_lib::jekyll::ArrayToSentenceString)
        .filter(liquid_lib::shopify::Pluralize)
        .filter(liquid_lib::extra::DateInTz)
        .build().expect("parser");
}

/// [{"n": name, "a": [values...]}, ...] -> ("f1: a0, a1 | f2", globals)
pub fn chain_source(chain: &[J], globals: &mut liquid::Object) -> Result<String, String> {
    let mut parts = Vec::new();
    let mut k = 0;
    for f in chain {
        let name = f["n"].as_str().ok_or("filter name")?;
        let mut args = Vec::new();
        for a in f["a"].as_array().map(|v| v.as_slice()).unwrap_or(&[]) {
            let var = format!("a{k}");
            k += 1;
            globals.insert(var.clone().into(), dec_value(a)?);
            args.push(var);
        }
        if args.is_empty() {
            parts.push(name.to_string());
        } else {
            parts.push(format!("{}: {}", name, args.join(", ")));
        }
    }
    Ok(parts.join(" | "))
}

/// value equality up to the shared encoding (ints may be numbers or decimal strings)
pub fn same_value(got: &J, want: &J) -> bool {
    match (got, want) {
        (J::Object(g), J::Object(w)) => {
            let gk = g.get("k").and_then(|x| x.as_str()).unwrap_or("");
            let wk = w.get("k").and_then(|x| x.as_str()).unwrap_or("");
            if gk != wk {
                return false;
            }
            match gk {
                "int" => num_text(&g["n"]) == num_text(&w["n"]),
                "str" => crate::val::dec_text(&g["s"]) == crate::val::dec_text(&w["s"]),
                "arr" => {
                    let (ga, wa) = (g["a"].as_array(), w["a"].as_array());
                    match (ga, wa) {
                        (Some(ga), Some(wa)) => ga.len() == wa.len() && ga.iter().zip(wa).all(|(a, b)| same_value(a, b)),
                        _ => false,
                    }
                }
                "obj" => {
                    let eg = serde_json::Map::new();
                    let go = g["o"].as_object().unwrap_or(&eg);
                    let ew = serde_json::Map::new();
                    let wo = w["o"].as_object().unwrap_or(&ew);
                    go.len() == wo.len() && go.iter().all(|(k, v)| wo.get(k).map(|x| same_value(v, x)).unwrap_or(false))
                }
                "bool" => g["b"] == w["b"],
                "float" => float_eq(got, want),
                _ => true, // nil, state
            }
        }
        _ => false,
    }
}

fn num_text(j: &J) -> String {
    match j {
        J::String(s) => s.clone(),
        other => other.to_string(),
    }
}

/// floats: want is num/den (small dyadic), got is num/2^e from the exact bits
fn float_eq(got: &J, want: &J) -> bool {
    let gn: i128 = num_text(&got["num"]).parse().unwrap_or(i128::MAX);
    let ge = got["e"].as_u64().unwrap_or(0);
    let gs = got.get("shl").and_then(|x| x.as_u64()).unwrap_or(0);
    if got.get("special").is_some() || want.get("special").is_some() {
        return got.get("special") == want.get("special");
    }
    let wn: i128 = num_text(&want["num"]).parse().unwrap_or(i128::MIN);
    let wd: i128 = num_text(&want["den"]).parse().unwrap_or(1);
    if ge > 100 || gs > 60 {
        return false;
    }
    // gn * 2^gs / 2^ge == wn / wd
    gn * (1i128 << gs) * wd == wn * (1i128 << ge)
}

pub fn run(rec: &J) -> Outcome {
    let nontrivial = rec.get("nt").and_then(|x| x.as_bool()).unwrap_or(true);
    let fail = |why: &str, extra: J| Outcome::fail(nontrivial, json!({"why": why, "info": extra}));
    let mut globals = liquid::Object::new();
    let input = match dec_value(&rec["in"]) {
        Ok(v) => v,
        Err(e) => return fail("harness: cannot decode input", json!(e)),
    };
    globals.insert("in".into(), input);
    let empty = Vec::new();
    let chain = rec["chain"].as_array().unwrap_or(&empty);
    let chain_src = match chain_source(chain, &mut globals) {
        Ok(s) => s,
        Err(e) => return fail("harness: cannot build chain", json!(e)),
    };
    let src = if chain_src.is_empty() { "{{ in | __dump }}".to_string() } else { format!("{{{{ in | {} | __dump }}}}", chain_src) };
    let want = &rec["expect"];
    let parsed = PARSER.with(|p| p.parse(&src));
    let template = match parsed {
        Ok(t) => t,
        Err(e) => {
            if want.get("err").is_some() || want.get("any").is_some() {
                return Outcome::ok(nontrivial);
            }
            return fail("filter expression was rejected by the parser", json!({"src": src, "err": e.to_string()}));
        }
    };
    let mut buf = Vec::new();
    let r = template.render_to(&mut buf, &globals);
    if std::str::from_utf8(&buf).is_err() {
        return fail("render emitted invalid UTF-8", json!({"src": src}));
    }
    if want.get("any").is_some() {
        return Outcome::ok(nontrivial); // totality only: it returned
    }
    match r {
        Err(e) => {
            if want.get("err").is_some() {
                Outcome::ok(nontrivial)
            } else if false {
                Outcome::ok(nontrivial)
            } else {
                fail("filter failed where the specification defines a value",
                     json!({"src": src, "in": rec["in"], "chain": chain, "err": e.to_string(), "want": want}))
            }
        }
        Ok(()) => {
            let text = String::from_utf8(buf).unwrap();
            let got: J = serde_json::from_str(&text).unwrap_or(json!({"k": "undumpable", "text": text}));
            if want.get("err").is_some() {
                return fail("filter returned a value where the specification defines an error",
                            json!({"src": src, "in": rec["in"], "chain": chain, "got": got}));
            }
            if let Some(perm) = want.get("perm").and_then(|p| p.as_array()) {
                // the specification only demands a permutation of the input
                let ga = got["a"].as_array().cloned().unwrap_or_default();
                let mut used = vec![false; perm.len()];
                let ok = got["k"] == "arr" && ga.len() == perm.len() && ga.iter().all(|g| {
                    for (i, w) in perm.iter().enumerate() {
                        if !used[i] && same_value(g, w) {
                            used[i] = true;
                            return true;
                        }
                    }
                    false
                });
                return if ok { Outcome::ok(nontrivial) } else {
                    fail("filter result is not a permutation of its input", json!({"src": src, "in": rec["in"], "chain": chain, "got": got}))
                };
            }
            if same_value(&got, &want["val"]) {
                Outcome::ok(nontrivial)
            } else {
                fail("filter result differs from the specification",
                     json!({"src": src, "in": rec["in"], "chain": chain, "got": got, "want": want["val"],
                            "got_text": crate::val::dec_text(&got["s"]), "want_text": crate::val::dec_text(&want["val"]["s"])}))
            }
        }
    }
}

/// `in | name` evaluated on the real parser, result returned as a value
/// (through the `__dump` text, decoded again).
pub fn eval_structural(name: &str, input: &Value) -> Result<Value, String> {
    let mut globals = liquid::Object::new();
    globals.insert("in".into(), input.clone());
    let src = format!("{{{{ in | {name} | __dump }}}}");
    let t = PARSER.with(|p| p.parse(&src)).map_err(|e| e.to_string())?;
    let text = t.render(&globals).map_err(|e| e.to_string())?;
    let j: J = serde_json::from_str(&text).map_err(|e| e.to_string())?;
    dumped_to_value(&j)
}

fn dumped_to_value(j: &J) -> Result<Value, String> {
    match j["k"].as_str().unwrap_or("") {
        "float" => {
            let num: f64 = j["num"].as_str().unwrap_or("0").parse().unwrap_or(0.0);
            let e = j["e"].as_u64().unwrap_or(0);
            let shl = j.get("shl").and_then(|x| x.as_u64()).unwrap_or(0);
            Ok(Value::scalar(num * (2f64).powi(shl as i32) / (2f64).powi(e as i32)))
        }
        "arr" => Ok(Value::Array(j["a"].as_array().unwrap_or(&Vec::new()).iter().map(dumped_to_value).collect::<Result<Vec<_>, _>>()?)),
        _ => dec_value(j),
    }
}

/// `{{ in | <chain> | __dump }}` with the given globals; the structural result.
pub fn eval_chain(chain: &str, globals: &liquid::Object) -> Result<Value, String> {
    let src = format!("{{{{ in | {chain} | __dump }}}}");
    let t = PARSER.with(|p| p.parse(&src)).map_err(|e| e.to_string())?;
    let text = t.render(globals).map_err(|e| e.to_string())?;
    let j: J = serde_json::from_str(&text).map_err(|e| e.to_string())?;
    dumped_to_value(&j)
}
