//! Worker-process pool: every implementation call runs in a child process so
//! that an abort, stack overflow or hang of the code under test becomes a
//! recorded failure of the record in flight instead of killing the check.
use serde_json::{json, Value as J};
use std::collections::hash_map::DefaultHasher;
use std::collections::{HashSet, VecDeque};
use std::hash::{Hash, Hasher};
use std::io::{BufRead, BufReader, Write};
use std::process::{Child, ChildStdin, Command, Stdio};
use std::sync::mpsc::{channel, sync_channel, Receiver, RecvTimeoutError, Sender};
use std::sync::{Arc, Mutex};
use std::time::Duration;

const BATCH: usize = 256;

pub fn worker_main() -> i32 {
    // panics of the code under test are data: keep the default hook quiet
    std::panic::set_hook(Box::new(|_| {}));
    let stdin = std::io::stdin();
    let stdout = std::io::stdout();
    let mut out = std::io::BufWriter::new(stdout.lock());
    for line in stdin.lock().lines() {
        let line = match line {
            Ok(l) => l,
            Err(_) => break,
        };
        if line == "FLUSH" {
            let _ = out.flush();
            continue;
        }
        let res = match serde_json::from_str::<J>(&line) {
            Err(e) => json!({"s": "fail", "n": 0, "d": {"why": format!("harness: bad json: {e}")}}),
            Ok(rec) => {
                let r = std::panic::catch_unwind(std::panic::AssertUnwindSafe(|| crate::dispatch(&rec)));
                match r {
                    Ok(o) => match o.fail {
                        None => json!({"s": "ok", "n": o.nontrivial as u8}),
                        Some(d) => json!({"s": "fail", "n": o.nontrivial as u8, "d": d}),
                    },
                    Err(e) => json!({"s": "fail", "n": 1,
                        "d": {"why": "panic", "msg": crate::util::panic_message(e)}}),
                }
            }
        };
        let _ = writeln!(out, "{}", res);
    }
    let _ = out.flush();
    0
}

struct Kid {
    child: Child,
    stdin: ChildStdin,
    rx: Receiver<String>,
}

fn spawn_kid() -> Kid {
    let exe = std::env::current_exe().expect("current_exe");
    // scope-frame hook traces: one file per worker process (LIQUID_VERIF_TRACE names the common prefix)
    static KID_NO: std::sync::atomic::AtomicUsize = std::sync::atomic::AtomicUsize::new(0);
    let mut cmd = Command::new(exe);
    if let Some(base) = std::env::var_os("LIQUID_VERIF_TRACE") {
        let n = KID_NO.fetch_add(1, std::sync::atomic::Ordering::Relaxed);
        let mut p = base;
        p.push(format!(".{n}"));
        cmd.env("LIQUID_VERIF_TRACE", p);
    }
    let mut child = cmd
        .arg("worker")
        .stdin(Stdio::piped())
        .stdout(Stdio::piped())
        .stderr(Stdio::null())
        .spawn()
        .expect("spawn worker");
    let stdin = child.stdin.take().unwrap();
    let stdout = child.stdout.take().unwrap();
    let (tx, rx) = channel::<String>();
    std::thread::spawn(move || {
        let r = BufReader::new(stdout);
        for l in r.lines() {
            match l {
                Ok(l) => {
                    if tx.send(l).is_err() {
                        break;
                    }
                }
                Err(_) => break,
            }
        }
    });
    Kid { child, stdin, rx }
}

#[derive(Default)]
struct Totals {
    total: u64,
    nontrivial: u64,
    fails: u64,
    crashes: u64,
}

fn run_batch(kid: &mut Kid, batch: &[String], timeout: Duration, out: &Sender<(String, J)>) -> (u64, u64) {
    // returns (nontrivial, fails)
    let mut nontrivial = 0;
    let mut fails = 0;
    let mut start = 0usize;
    while start < batch.len() {
        // (re)send everything from `start`
        let mut ok_write = true;
        for l in &batch[start..] {
            if writeln!(kid.stdin, "{}", l).is_err() {
                ok_write = false;
                break;
            }
        }
        if ok_write {
            let _ = writeln!(kid.stdin, "FLUSH");
            let _ = kid.stdin.flush();
        }
        let mut got = start;
        let mut dead: Option<&'static str> = None;
        while got < batch.len() {
            match kid.rx.recv_timeout(timeout) {
                Ok(line) => {
                    let r: J = serde_json::from_str(&line).unwrap_or(json!({"s":"fail","n":0,"d":{"why":"harness: bad worker line"}}));
                    if r["n"].as_u64().unwrap_or(0) == 1 {
                        nontrivial += 1;
                    }
                    if r["s"] != "ok" {
                        fails += 1;
                        let _ = out.send((batch[got].clone(), r["d"].clone()));
                    }
                    got += 1;
                }
                Err(RecvTimeoutError::Timeout) => {
                    dead = Some("hang");
                    break;
                }
                Err(RecvTimeoutError::Disconnected) => {
                    dead = Some("crash");
                    break;
                }
            }
        }
        if let Some(kind) = dead {
            let _ = kid.child.kill();
            let status = kid.child.wait().ok();
            let detail = json!({"why": kind, "msg": format!("worker process ended: {:?}", status)});
            fails += 1;
            nontrivial += 1;
            let _ = out.send((batch[got].clone(), detail));
            *kid = spawn_kid();
            start = got + 1;
        } else {
            start = batch.len();
        }
    }
    (nontrivial, fails)
}

pub fn replay_main(args: &[String]) -> i32 {
    let mut workers = 4usize;
    let mut timeout_ms = 20_000u64;
    let mut i = 0;
    while i < args.len() {
        match args[i].as_str() {
            "--workers" => {
                workers = args[i + 1].parse().unwrap();
                i += 2;
            }
            "--timeout-ms" => {
                timeout_ms = args[i + 1].parse().unwrap();
                i += 2;
            }
            _ => i += 1,
        }
    }
    let timeout = Duration::from_millis(timeout_ms);
    let (btx, brx) = sync_channel::<Vec<String>>(workers * 2);
    let brx = Arc::new(Mutex::new(brx));
    let (ftx, frx) = channel::<(String, J)>();
    let totals = Arc::new(Mutex::new(Totals::default()));
    let mut handles = Vec::new();
    for _ in 0..workers {
        let brx = brx.clone();
        let ftx = ftx.clone();
        let totals = totals.clone();
        handles.push(std::thread::spawn(move || {
            let mut kid = spawn_kid();
            loop {
                let batch = {
                    let g = brx.lock().unwrap();
                    g.recv()
                };
                let batch = match batch {
                    Ok(b) => b,
                    Err(_) => break,
                };
                let (n, f) = run_batch(&mut kid, &batch, timeout, &ftx);
                let mut t = totals.lock().unwrap();
                t.total += batch.len() as u64;
                t.nontrivial += n;
                t.fails += f;
            }
            drop(kid.stdin);
            let _ = kid.child.wait();
        }));
    }
    drop(ftx);
    // failure printer: at most 50 000 per category (reason + first filter / statement kind), counts for all
    let printer = std::thread::spawn(move || {
        let stdout = std::io::stdout();
        let mut cats: std::collections::BTreeMap<String, u64> = std::collections::BTreeMap::new();
        for (rec, detail) in frx {
            let recj: J = serde_json::from_str(&rec).unwrap_or(J::String(rec));
            let why = detail.get("why").and_then(|w| w.as_str()).unwrap_or("?");
            let what = recj.get("chain").and_then(|c| c.get(0)).and_then(|f| f.get("n")).and_then(|n| n.as_str())
                .or_else(|| recj.get("f").and_then(|n| n.as_str()))
                .or_else(|| recj.get("fam").and_then(|n| n.as_str()))
                .or_else(|| detail.get("msg").and_then(|n| n.as_str()).map(|m| &m[..m.len().min(60)]))
                .unwrap_or("");
            let key = format!("{why} [{what}]");
            let n = cats.entry(key).or_insert(0);
            *n += 1;
            if *n <= 500_000 {
                let mut o = stdout.lock();
                let _ = writeln!(o, "FAIL {}", json!({"rec": recj, "detail": detail}));
            }
        }
        cats
    });
    let stdin = std::io::stdin();
    let mut batch = Vec::with_capacity(BATCH);
    let mut seen: HashSet<u64> = HashSet::new();
    let mut samples: VecDeque<String> = VecDeque::new();
    let mut lines = 0u64;
    for line in stdin.lock().lines() {
        let line = match line {
            Ok(l) => l,
            Err(_) => break,
        };
        if line.is_empty() {
            continue;
        }
        lines += 1;
        let mut h = DefaultHasher::new();
        line.hash(&mut h);
        seen.insert(h.finish());
        // keep a spread of samples: the first, and every (2^k)-th line
        if lines.is_power_of_two() && line.len() < 4000 {
            samples.push_back(line.clone());
            if samples.len() > 6 {
                samples.pop_front();
            }
        }
        batch.push(line);
        if batch.len() == BATCH {
            btx.send(std::mem::replace(&mut batch, Vec::with_capacity(BATCH))).unwrap();
        }
    }
    if !batch.is_empty() {
        btx.send(batch).unwrap();
    }
    drop(btx);
    for h in handles {
        let _ = h.join();
    }
    let cats = printer.join().unwrap_or_default();
    let t = totals.lock().unwrap();
    let samples: Vec<J> = samples
        .iter()
        .map(|s| serde_json::from_str(s).unwrap_or(J::Null))
        .collect();
    println!(
        "SUMMARY {}",
        json!({"records": t.total, "distinct": seen.len(), "nontrivial": t.nontrivial,
               "fails": t.fails, "crashes": t.crashes, "fail_categories": cats, "samples": samples})
    );
    0
}
