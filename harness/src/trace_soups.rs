//! C01 (binding B): random token soups, lexical sequences inside host tags,
//! nesting towers and character-level mutations of well-formed templates are
//! parsed under three parser configurations; Call / Return events for
//! Trace_Calls.tla.
use crate::parse::parse_outcome;
use crate::util::Rng;
use serde_json::json;
use std::io::Write;

const LEX: [&str; 48] = [
    "{{", "}}", "{%", "%}", "{{-", "-}}", "{%-", "-%}", "{", "}", "if", "endif", "else", "elsif", "unless", "endunless", "for", "endfor",
    "in", "case", "when", "endcase", "raw", "endraw", "comment", "endcomment", "assign", "capture", "endcapture", "==", "!=", "<>", "<=",
    "contains", "and", "or", "|", ":", ",", ".", "(1..3)", "99999999999999999999", "-5", "'a'", "\"b", "x", "é", "\t",
];
const INNER: [&str; 40] = [
    "x", "y.z", "a[0]", "a['k']", "1", "-1", "+2", "1.5", "99999999999999999999", "-9223372036854775808", "'s'", "\"d\"", "'unterminated",
    "nil", "true", "empty", "blank", "==", "!=", "<", ">=", "<>", "contains", "and", "or", "|", ":", ",", ".", "..", "(", ")", "[", "]",
    "upcase", "in", "=", "é", "\t", "-",
];
const HOSTS: [(&str, &str); 10] = [
    ("{{ ", " }}"), ("{% if ", " %}x{% endif %}"), ("{% assign v = ", " %}"), ("{% for i in ", " %}{% endfor %}"),
    ("{% case ", " %}{% endcase %}"), ("{% case x %}{% when ", " %}{% endcase %}"), ("{% cycle ", " %}"), ("{% include ", " %}"),
    ("{% render ", " %}"), ("{% tablerow i in a ", " %}{% endtablerow %}"),
];
const VALID: [&str; 14] = [
    "a{{ x | upcase }}b{% if x == 1 and y %}T{% elsif z %}U{% else %}F{% endif %}",
    "{% for i in (1..3) reversed limit:2 %}{{ i }}{% else %}none{% endfor %}",
    "{% case x %}{% when 1, 2 or 3 %}a{% else %}b{% endcase %}{% assign q = 'é' | append: \"x\" %}",
    "{% capture c %}{% cycle 'a', 'b' %}{% increment n %}{% endcapture %}{{ c }}",
    "{% raw %}{{ not }} {% parsed %}{% endraw %}{% comment %}text {{ x }}{% endcomment %}",
    "{%- tablerow r in a cols:2 offset:1 -%}{{ r }}{%- endtablerow -%}",
    "{% include 'p' k: 1, j: x %}{% render 'p' with x as y, z: 2 %}{% render 'p' for a as b %}",
    "{% unless a contains 'b' %}{% ifchanged %}{{ a[0].b['c'] }}{% endifchanged %}{% endunless %}",
    "éé 'quoted' text {{ 'a' }}\n second line {{ \"b\" }} \t{{ 1.5 }}",
    "{% if a %}{% if b %}{% if c %}deep{% endif %}{% endif %}{% endif %}",
    "{{ x | replace: 'a', 'b' | truncate: 5, '...' | default: nil }}",
    "{% for i in a %}{% break %}{% continue %}{% endfor %}{% decrement d %}",
    "{{ -9223372036854775808 }}{{ 9223372036854775807 }}{{ a[-1] }}",
    "line1\nlé2 {{ 'a' }} {% assign b = 'c' %}\nline3 '{{ x }}'",
];
const BLOCKS: [(&str, &str); 8] = [
    ("{% if x %}", "{% endif %}"), ("{% unless x %}", "{% endunless %}"), ("{% for i in a %}", "{% endfor %}"),
    ("{% case x %}{% when 1 %}", "{% endcase %}"), ("{% capture v %}", "{% endcapture %}"), ("{% comment %}", "{% endcomment %}"),
    ("{% tablerow i in a %}", "{% endtablerow %}"), ("{% ifchanged %}", "{% endifchanged %}"),
];

fn mutate(rng: &mut Rng, s: &str) -> String {
    let mut cs: Vec<char> = s.chars().collect();
    for _ in 0..(1 + rng.below(3)) {
        if cs.is_empty() { break; }
        let i = rng.below(cs.len());
        match rng.below(3) {
            0 => { cs.remove(i); }
            1 => { let c = cs[i]; cs.insert(i, c); }
            _ => { if i + 1 < cs.len() { cs.swap(i, i + 1); } }
        }
    }
    cs.into_iter().collect()
}

pub fn main(args: &[String]) -> i32 {
    let (mut out, mut seed, mut n, mut lexlen) = (String::new(), 1u64, 4000usize, 2usize);
    let mut i = 0;
    while i < args.len() {
        match args[i].as_str() {
            "--out" => { out = args[i + 1].clone(); i += 2; }
            "--seed" => { seed = args[i + 1].parse().unwrap(); i += 2; }
            "--cases" => { n = args[i + 1].parse().unwrap(); i += 2; }
            "--lexlen" => { lexlen = args[i + 1].parse().unwrap(); i += 2; }
            _ => i += 1,
        }
    }
    std::panic::set_hook(Box::new(|_| {}));
    let mut rng = Rng::new(seed);
    let mut inputs: Vec<String> = Vec::new();
    // 1. every lexical sequence up to `lexlen` inside every host tag
    let mut seqs: Vec<Vec<&str>> = vec![vec![]];
    let mut frontier: Vec<Vec<&str>> = vec![vec![]];
    for _ in 0..lexlen {
        let mut next = Vec::new();
        for s in &frontier { for t in INNER.iter() { let mut v = s.clone(); v.push(*t); next.push(v); } }
        seqs.extend(next.iter().cloned());
        frontier = next;
    }
    for (pre, post) in HOSTS.iter() {
        for s in &seqs { inputs.push(format!("{pre}{}{post}", s.join(" "))); }
    }
    // 2. nesting towers, closed and unclosed, depth 1..32
    for (o, c) in BLOCKS.iter() {
        for d in [1usize, 2, 3, 8, 16, 31, 32] {
            inputs.push(format!("{}x{}", o.repeat(d), c.repeat(d)));
            inputs.push(format!("{}x{}", o.repeat(d), c.repeat(d - 1)));
            inputs.push(format!("{}x{}", o.repeat(d - 1), c.repeat(d)));
        }
    }
    // 2b. the error path re-slices the offending line: multi-byte text runs before quote-bearing
    //     valid elements and quote-bearing invalid ones, with the invalid token on lines 1..3
    for ch in ["é", "日", "😀", "a"] {
        for run in 1..=8usize {
            for valid in ["{{ 'a' }}", "{{ \"a\" }}", "{% assign q = 'a' %}", ""] {
                for bad in ["{{ b' }}", "{{ 'b }}", "{{ \"b }}", "{{", "{% if 'x %}", "{% nosuch 'x' %}"] {
                    for lines in 0..3usize {
                        inputs.push(format!("{}{}{}{}", "l\n".repeat(lines), ch.repeat(run), valid, bad));
                        inputs.push(format!("{}{} {} {}", "l\n".repeat(lines), ch.repeat(run), valid, bad));
                    }
                }
            }
        }
    }
    // 2c. long inputs (16 .. 96 KB): plain text, well-formed markup, delimiter soups, one long line and many short ones
    for kb in [16usize, 32, 96] {
        let n = kb * 1024;
        inputs.push("lorem ipsum dolor sit amet ".repeat(n / 27));
        inputs.push("{{ a }}{% if a %}x{% else %}y{% endif %}{% for i in (1..2) %}{{ i }}{% endfor %}\n".repeat(n / 80));
        inputs.push("{{ {% %} }} {%- -%} {{- ".repeat(n / 24));
        inputs.push(format!("{}{{% if %}}", "é日😀 ".repeat(n / 12)));
        inputs.push(format!("{{% raw %}}{}{{% endraw %}}{{% comment %}}{}{{% endcomment %}}", "{{ x }} ".repeat(n / 16), "{% y %} ".repeat(n / 16)));
    }
    // 3. random soups and mutations
    for k in 0..n {
        if k % 2 == 0 {
            let len = 3 + rng.below(38);
            let sep = if rng.chance(1, 2) { "" } else { " " };
            let toks: Vec<&str> = (0..len).map(|_| *rng.pick(&LEX)).collect();
            inputs.push(toks.join(sep));
        } else {
            let base = if rng.chance(1, 5) {
                format!("{}{}", rng.pick(&VALID), rng.pick(&VALID))
            } else { rng.pick(&VALID).to_string() };
            inputs.push(mutate(&mut rng, &base));
        }
    }
    for v in VALID.iter() { inputs.push(v.to_string()); }
    let mut f = std::io::BufWriter::new(std::fs::File::create(&out).expect("out"));
    let (mut events, mut calls, mut accepted) = (0u64, 0u64, 0u64);
    let mut samples = Vec::new();
    for (k, src) in inputs.iter().enumerate() {
        for cfg in ["stdlib", "all", "empty"] {
            let shown: String = if src.len() > 2000 { format!("{}... ({} bytes)", src.chars().take(200).collect::<String>(), src.len()) } else { src.clone() };
            let _ = writeln!(f, "{}", json!({"e": "Call", "op": "parse", "cfg": cfg, "src": shown}));
            events += 1;
            calls += 1;
            let s2 = src.clone();
            let r = std::panic::catch_unwind(move || parse_outcome(cfg, &s2));
            match r {
                Ok(Ok(ok)) => {
                    if ok { accepted += 1; }
                    let _ = writeln!(f, "{}", json!({"e": "Return", "ok": ok, "msglen": if ok { 0 } else { 1 }}));
                    events += 1;
                }
                Ok(Err(_)) => { let _ = writeln!(f, "{}", json!({"e": "Return", "ok": false, "msglen": 0})); events += 1; }
                Err(_) => {} // a panic: the call has no Return
            }
        }
        if samples.len() < 4 && k % 5000 == 17 { samples.push(json!({"src": src})); }
    }
    let _ = writeln!(f, "{}", json!({"e": "End"}));
    let _ = f.flush();
    println!("TRACEINFO {}", json!({"traces": calls, "events": events + 1, "cases": calls, "nontrivial": calls - accepted, "accepted": accepted, "samples": samples}));
    0
}
