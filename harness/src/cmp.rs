//! Replay of `cmp` records (C11): every ordered pair of the pool through the
//! Rust API (Value, ValueCow owned and borrowed, ValueViewCmp) and through
//! templates (if / case / contains / uniq / sort), each value built twice
//! with different construction orders.
use crate::val::dec_value;
use crate::Outcome;
use liquid_core::model::{Object, Value, ValueCow, ValueView, ValueViewCmp};
use serde_json::{json, Value as J};
use std::cmp::Ordering;

/// the same value, rebuilt with every object's keys inserted in the opposite order
fn rebuild_reversed(v: &Value) -> Value {
    match v {
        Value::Array(a) => Value::Array(a.iter().map(rebuild_reversed).collect()),
        Value::Object(o) => {
            let mut keys: Vec<_> = o.iter().map(|(k, v)| (k.clone(), rebuild_reversed(v))).collect();
            keys.sort_by(|a, b| b.0.cmp(&a.0));
            let mut n = Object::new();
            // a separately allocated map with its own hasher state and a different insertion order
            for (k, v) in keys {
                n.insert(k, v);
            }
            Value::Object(n)
        }
        other => other.clone(),
    }
}

fn want_ord(s: &str) -> Option<Ordering> {
    match s {
        "lt" => Some(Ordering::Less),
        "eq" => Some(Ordering::Equal),
        "gt" => Some(Ordering::Greater),
        _ => None,
    }
}

thread_local! {
    static PARSER: liquid::Parser = liquid::ParserBuilder::with_stdlib().build().expect("parser");
    static TEMPLATES: Vec<(&'static str, liquid::Template)> = PARSER.with(|p| {
        [("eq", "{% if a == b %}T{% else %}F{% endif %}"), ("ne", "{% if a != b %}T{% else %}F{% endif %}"),
         ("lt", "{% if a < b %}T{% else %}F{% endif %}"), ("le", "{% if a <= b %}T{% else %}F{% endif %}"),
         ("gt", "{% if a > b %}T{% else %}F{% endif %}"), ("ge", "{% if a >= b %}T{% else %}F{% endif %}"),
         ("case", "{% case a %}{% when b %}T{% else %}F{% endcase %}"),
         ("contains", "{% if arr contains b %}T{% else %}F{% endif %}"),
         ("uniq", "{{ pair | uniq | size }}")]
            .iter().map(|(n, s)| (*n, p.parse(s).expect("template"))).collect()
    });
}

pub fn run(rec: &J) -> Outcome {
    let nontrivial = rec.get("nt").and_then(|x| x.as_bool()).unwrap_or(true);
    let fail = |why: &str, extra: J| Outcome::fail(nontrivial, json!({"why": why, "info": extra}));
    let (a1, b1) = match (dec_value(&rec["a"]), dec_value(&rec["b"])) {
        (Ok(a), Ok(b)) => (a, b),
        (Err(e), _) | (_, Err(e)) => return fail("harness: cannot decode value", json!(e)),
    };
    let (a2, b2) = (rebuild_reversed(&a1), rebuild_reversed(&b1));
    let eq = rec["expect"]["eq"].as_bool().unwrap_or(false);
    let ord = want_ord(rec["expect"]["cmp"].as_str().unwrap_or("none"));
    for (ai, a) in [&a1, &a2].iter().enumerate() {
        for (bi, b) in [&b1, &b2].iter().enumerate() {
            let at = json!({"a_build": ai, "b_build": bi});
            let (va, vb) = (ValueViewCmp::new(a.as_view()), ValueViewCmp::new(b.as_view()));
            // ValueViewCmp: equality and order
            let checks: [(&str, bool, bool); 7] = [
                ("==", va == vb, eq), ("!=", va != vb, !eq),
                ("<", va < vb, ord == Some(Ordering::Less)),
                ("<=", va <= vb, matches!(ord, Some(Ordering::Less | Ordering::Equal))),
                (">", va > vb, ord == Some(Ordering::Greater)),
                (">=", va >= vb, matches!(ord, Some(Ordering::Greater | Ordering::Equal))),
                ("partial_cmp", va.partial_cmp(&vb) == ord, true),
            ];
            for (name, got, want) in checks {
                if got != want {
                    return fail("comparison through ValueViewCmp differs from LiquidCompare",
                                json!({"op": name, "got": got, "want": want, "at": at}));
                }
            }
            // ValueCow owned / borrowed views of the same data compare alike
            let (oa, ob) = (ValueCow::Owned((*a).clone()), ValueCow::Owned((*b).clone()));
            let (ba, bb) = (ValueCow::Borrowed(a.as_view()), ValueCow::Borrowed(b.as_view()));
            for (name, x, y) in [("owned", &oa, &ob), ("borrowed", &ba, &bb), ("mixed", &oa, &bb)] {
                let (cx, cy) = (ValueViewCmp::new(x.as_view()), ValueViewCmp::new(y.as_view()));
                if (cx == cy) != eq || cx.partial_cmp(&cy) != ord {
                    return fail("comparison through ValueCow differs from LiquidCompare", json!({"view": name, "at": at}));
                }
            }
            // Value's own PartialEq is structural; where it says equal, Liquid equality must agree unless NaN is involved
            // templates
            // built by hand: the object! macro would move the values through serde
            let mut globals = Object::new();
            globals.insert("a".into(), (*a).clone());
            globals.insert("b".into(), (*b).clone());
            globals.insert("arr".into(), Value::Array(vec![(*a).clone()]));
            globals.insert("pair".into(), Value::Array(vec![(*a).clone(), (*b).clone()]));
            let wants = [("eq", eq), ("ne", !eq), ("lt", ord == Some(Ordering::Less)),
                         ("le", matches!(ord, Some(Ordering::Less | Ordering::Equal))), ("gt", ord == Some(Ordering::Greater)),
                         ("ge", matches!(ord, Some(Ordering::Greater | Ordering::Equal))), ("case", eq), ("contains", eq)];
            let r: Result<(), J> = TEMPLATES.with(|ts| {
                for (name, t) in ts.iter() {
                    let out = t.render(&globals).map_err(|e| json!({"template": name, "err": e.to_string()}))?;
                    let want = if *name == "uniq" {
                        if eq { "1".to_string() } else { "2".to_string() }
                    } else {
                        let w = wants.iter().find(|(n, _)| n == name).map(|(_, w)| *w).unwrap_or(false);
                        if w { "T".to_string() } else { "F".to_string() }
                    };
                    if out != want {
                        return Err(json!({"template": name, "got": out, "want": want}));
                    }
                }
                Ok(())
            });
            if let Err(d) = r {
                return fail("comparison through a template differs from LiquidCompare", json!({"detail": d, "at": at}));
            }
        }
    }
    Outcome::ok(nontrivial)
}
