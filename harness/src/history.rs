//! Replay of `history` records (C09): one shared parser, templates parsed once,
//! a sequence of render calls; each call's result must equal what the
//! specification computes from (template, data) alone.  The same calls are
//! also executed on a freshly built parser.
use crate::ast;
use crate::render::{build_parser, outcome_json, partial_sources, same_outcome};
use crate::val::dec_object;
use crate::Outcome;
use serde_json::{json, Value as J};

/// "free" histories: templates given as source text (they may use filters, which LiquidInterp does not evaluate); the
/// specification only says that the result is a function of (template, data): every call on the shared parser must
/// return what the same (template, data) returns when executed alone - fresh parser, fresh parse, fresh THREAD.
fn run_free(rec: &J) -> Outcome {
    let fail = |why: &str, extra: J| Outcome::fail(true, json!({"why": why, "info": extra}));
    let empty = Vec::new();
    let srcs: Vec<String> = rec["srcs"].as_array().unwrap_or(&empty).iter().filter_map(crate::val::dec_text).collect();
    let parts = match partial_sources(&rec["parts"]) {
        Ok(p) => p,
        Err(e) => return fail("harness: cannot print partial", json!(e)),
    };
    let mut datas = Vec::new();
    for d in rec["datas"].as_array().unwrap_or(&empty) {
        match dec_object(d) {
            Ok(o) => datas.push(o),
            Err(e) => return fail("harness: cannot decode data", json!(e)),
        }
    }
    let policy = rec["policy"].as_str().unwrap_or("lazy").to_string();
    let calls = rec["calls"].as_array().unwrap_or(&empty);
    // alone: one fresh thread per call
    let mut alone = Vec::new();
    for c in calls {
        let (i, j) = (c[0].as_u64().unwrap_or(1) as usize - 1, c[1].as_u64().unwrap_or(1) as usize - 1);
        let (src, data, parts, policy) = (srcs[i].clone(), datas[j].clone(), parts.clone(), policy.clone());
        let h = std::thread::spawn(move || {
            let p = build_parser(&policy, &parts).map_err(|e| e.to_string())?;
            let t = p.parse(&src).map_err(|e| e.to_string())?;
            Ok::<J, String>(outcome_json(&t.render(&data)))
        });
        match h.join() {
            Ok(Ok(o)) => alone.push(o),
            Ok(Err(e)) => return fail("free history: template or parser rejected", json!(e)),
            Err(_) => return fail("free history: panic when executed alone", json!(null)),
        }
    }
    let parser = match build_parser(&policy, &parts) {
        Ok(p) => p,
        Err(e) => return fail("parser construction failed", json!(e)),
    };
    let mut templates = Vec::new();
    for s in &srcs {
        match parser.parse(s) {
            Ok(t) => templates.push(t),
            Err(e) => return fail("generated template was rejected by the parser", json!({"src": s, "err": e.to_string()})),
        }
    }
    for (k, c) in calls.iter().enumerate() {
        let (i, j) = (c[0].as_u64().unwrap_or(1) as usize - 1, c[1].as_u64().unwrap_or(1) as usize - 1);
        let got = outcome_json(&templates[i].render(&datas[j]));
        let same = got["ok"] == alone[k]["ok"] && (got["ok"] == false || got["out"] == alone[k]["out"]);
        if !same {
            return fail("result of a render call depends on the history",
                json!({"call": k + 1, "calls": calls, "src": srcs[i], "data": rec["datas"][j], "policy": policy, "got": got, "alone": alone[k]}));
        }
    }
    Outcome::ok(true)
}

pub fn run(rec: &J) -> Outcome {
    if rec.get("free").and_then(|x| x.as_bool()) == Some(true) {
        return run_free(rec);
    }
    let nontrivial = rec.get("nt").and_then(|x| x.as_bool()).unwrap_or(true);
    let fail = |why: &str, extra: J| Outcome::fail(nontrivial, json!({"why": why, "info": extra}));
    let empty = Vec::new();
    let mut srcs = Vec::new();
    for t in rec["templates"].as_array().unwrap_or(&empty) {
        match ast::block(t) {
            Ok(s) => srcs.push(s),
            Err(e) => return fail("harness: cannot print template", json!(e)),
        }
    }
    let parts = match partial_sources(&rec["parts"]) {
        Ok(p) => p,
        Err(e) => return fail("harness: cannot print partial", json!(e)),
    };
    let mut datas = Vec::new();
    for d in rec["datas"].as_array().unwrap_or(&empty) {
        match dec_object(d) {
            Ok(o) => datas.push(o),
            Err(e) => return fail("harness: cannot decode data", json!(e)),
        }
    }
    let policy = rec["policy"].as_str().unwrap_or("lazy");
    let parser = match build_parser(policy, &parts) {
        Ok(p) => p,
        Err(e) => return fail("parser construction failed", json!(e)),
    };
    let mut templates = Vec::new();
    for s in &srcs {
        match parser.parse(s) {
            Ok(t) => templates.push(t),
            Err(e) => return fail("generated template was rejected by the parser", json!({"src": s, "err": e.to_string()})),
        }
    }
    let calls = rec["calls"].as_array().unwrap_or(&empty);
    let expect = rec["expect"].as_array().unwrap_or(&empty);
    if calls.len() != expect.len() {
        return fail("harness: calls/expect length differ", json!(null));
    }
    for (k, c) in calls.iter().enumerate() {
        let i = c[0].as_u64().unwrap_or(1) as usize - 1;
        let j = c[1].as_u64().unwrap_or(1) as usize - 1;
        let before = datas[j].clone();
        let got = templates[i].render(&datas[j]);
        if datas[j] != before {
            return fail("caller data object was modified", json!({"call": k + 1}));
        }
        if !same_outcome(&got, &expect[k]) {
            return fail("result of a render call depends on the history",
                json!({"call": k + 1, "calls": calls, "src": srcs[i], "data": rec["datas"][j], "policy": policy,
                       "got": outcome_json(&got), "want": expect[k]}));
        }
        // the same (template, data) on a freshly built parser and a fresh parse
        let fresh = match build_parser(policy, &parts) {
            Ok(p) => p,
            Err(e) => return fail("parser construction failed", json!(e)),
        };
        let got2 = match fresh.parse(&srcs[i]) {
            Ok(t) => t.render(&datas[j]),
            Err(e) => return fail("template rejected on a fresh parser", json!(e.to_string())),
        };
        if !same_outcome(&got2, &expect[k]) {
            return fail("freshly parsed copy differs from the specification",
                json!({"call": k + 1, "src": srcs[i], "got": outcome_json(&got2), "want": expect[k]}));
        }
    }
    Outcome::ok(nontrivial)
}
