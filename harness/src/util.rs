use serde_json::Value as J;

/// Small deterministic PRNG (xorshift64*), so that no crate beyond the
/// repository's lock file is needed.
pub struct Rng(pub u64);
impl Rng {
    pub fn new(seed: u64) -> Self {
        Rng(seed.wrapping_mul(0x9E37_79B9_7F4A_7C15) | 1)
    }
    pub fn next(&mut self) -> u64 {
        let mut x = self.0;
        x ^= x >> 12;
        x ^= x << 25;
        x ^= x >> 27;
        self.0 = x;
        x.wrapping_mul(0x2545_F491_4F6C_DD1D)
    }
    pub fn below(&mut self, n: usize) -> usize {
        (self.next() % (n as u64)) as usize
    }
    pub fn pick<'a, T>(&mut self, xs: &'a [T]) -> &'a T {
        &xs[self.below(xs.len())]
    }
    pub fn chance(&mut self, num: u64, den: u64) -> bool {
        self.next() % den < num
    }
}

pub fn panic_message(e: Box<dyn std::any::Any + Send>) -> String {
    if let Some(s) = e.downcast_ref::<&str>() {
        (*s).to_string()
    } else if let Some(s) = e.downcast_ref::<String>() {
        s.clone()
    } else {
        "panic (non-string payload)".to_string()
    }
}

pub fn jstr<'a>(v: &'a J, k: &str) -> &'a str {
    v.get(k).and_then(|x| x.as_str()).unwrap_or("")
}
