//! Conformance harness binding the TLA+ specifications under /verif/spec to the
//! real liquid-rust crates under /repo.
//!
//!   verif-harness replay [--workers N] [--timeout-ms T]
//!       reads replay records (one JSON object per line) on stdin, executes each
//!       on the real code in an isolated worker process, prints `FAIL <json>`
//!       lines and a final `SUMMARY <json>` line.
//!   verif-harness worker          (internal) executes records, one result line each
//!   verif-harness trace <kind> .. writes ndjson traces of real executions
#![allow(dead_code)]
mod ast;
mod c18;
mod cmp;
mod date;
mod filter;
mod history;
mod parse;
mod pool;
mod render;
mod trace_arrays;
mod trace_math;
mod trace_sink;
mod trace_soups;
mod trace_threads;
mod util;
mod val;
mod views;

use serde_json::Value as J;

/// Outcome of executing one replay record on the implementation.
pub struct Outcome {
    /// `None` = the implementation agreed with the specification.
    pub fail: Option<J>,
    /// whether the record is non-trivial by the property's stated rule
    pub nontrivial: bool,
}

impl Outcome {
    pub fn ok(nontrivial: bool) -> Self {
        Outcome { fail: None, nontrivial }
    }
    pub fn fail(nontrivial: bool, detail: J) -> Self {
        Outcome { fail: Some(detail), nontrivial }
    }
}

pub fn dispatch(rec: &J) -> Outcome {
    let kind = rec.get("kind").and_then(|p| p.as_str()).unwrap_or("");
    if kind == "render" || kind == "source" {
        return render::run(rec);
    }
    if kind == "mathcase" || kind == "bigcheck" {
        return Outcome::ok(false); // evaluated, and counted, by the trace stage (binding B)
    }
    match kind {
        "views" => return views::run_views(rec),
        "structview" => return views::run_struct(rec),
        "serdeint" => return views::run_serdeint(rec),
        _ => {}
    }
    if kind == "parse" {
        return parse::run(rec);
    }
    if kind == "date" {
        return date::run(rec);
    }
    if kind == "cmp" {
        return cmp::run(rec);
    }
    if kind == "filter" {
        return filter::run(rec);
    }
    if kind == "history" {
        return history::run(rec);
    }
    match rec.get("p").and_then(|p| p.as_str()).unwrap_or("") {
        "C18" => c18::run(rec),
        other => Outcome::fail(false, serde_json::json!({"why": "harness: unknown record", "p": other})),
    }
}

fn main() {
    let args: Vec<String> = std::env::args().collect();
    let cmd = args.get(1).map(|s| s.as_str()).unwrap_or("");
    let code = match cmd {
        "replay" => pool::replay_main(&args[2..]),
        "worker" => pool::worker_main(),
        "trace" => match args.get(2).map(|s| s.as_str()) {
            Some("sink") => trace_sink::main(&args[3..]),
            Some("threads") => trace_threads::main(&args[3..]),
            Some("arrays") => trace_arrays::main(&args[3..]),
            Some("math") => trace_math::main(&args[3..]),
            Some("soups") => trace_soups::main(&args[3..]),
            _ => 2,
        },
        _ => {
            eprintln!("usage: verif-harness replay|worker|trace ...");
            2
        }
    };
    std::process::exit(code);
}
