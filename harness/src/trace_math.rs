//! C15 (binding B): evaluates the arithmetic cases TLC enumerated on the
//! real filters and records every outcome exactly (integers as decimal text,
//! doubles as num/den from their bits) for Trace_Math.tla.
use crate::val::enc_value;
use liquid_core::model::Value;
use serde_json::{json, Value as J};
use std::io::Write;

fn operand(j: &J) -> Option<Value> {
    Some(match j["k"].as_str()? {
        "int" => Value::scalar(j["n"].as_str()?.parse::<i64>().ok()?),
        "str" => Value::scalar(j["s"].as_str()?.to_string()),
        "float" => {
            let num: f64 = j["num"].as_str()?.parse().ok()?;
            let den: f64 = j["den"].as_str()?.parse().ok()?;
            Value::scalar(num / den)
        }
        "nil" => Value::Nil,
        "bool" => Value::scalar(true),
        "arr" => Value::Array(vec![Value::scalar(1i64)]),
        _ => return None,
    })
}

/// exact outcome encoding
fn outcome(r: std::thread::Result<Result<Value, String>>) -> J {
    match r {
        Err(_) => json!({"k": "panic"}),
        Ok(Err(_)) => json!({"k": "error"}),
        Ok(Ok(v)) => {
            let d = enc_value(&v);
            match d["k"].as_str().unwrap_or("") {
                "int" => json!({"k": "int", "n": d["n"]}),
                "float" => {
                    if d.get("special").is_some() {
                        return json!({"k": "float", "special": d["special"]});
                    }
                    let m: i128 = d["num"].as_str().unwrap_or("0").parse().unwrap_or(0);
                    let e = d["e"].as_u64().unwrap_or(0);
                    let shl = d.get("shl").and_then(|x| x.as_u64()).unwrap_or(0);
                    if e > 1100 || shl > 1100 {
                        return json!({"k": "float", "special": "out-of-encoding-range"});
                    }
                    let mag = dec_shl(m.unsigned_abs(), shl);
                    let num = if m < 0 { format!("-{mag}") } else { mag };
                    json!({"k": "float", "num": num, "den": dec_shl(1, e)})
                }
                other => json!({"k": other}),
            }
        }
    }
}

/// decimal text of m * 2^k (schoolbook doubling on decimal digits)
fn dec_shl(m: u128, k: u64) -> String {
    let mut digits: Vec<u8> = m.to_string().bytes().rev().map(|b| b - b'0').collect();
    for _ in 0..k {
        let mut carry = 0u8;
        for d in digits.iter_mut() {
            let v = *d * 2 + carry;
            *d = v % 10;
            carry = v / 10;
        }
        if carry > 0 {
            digits.push(carry);
        }
    }
    digits.iter().rev().map(|d| (b'0' + d) as char).collect()
}

fn eval(op: &str, a: &Value, b: Option<&Value>) -> J {
    let chain = match b {
        Some(_) => format!("{op}: b"),
        None => op.to_string(),
    };
    let mut g = liquid::Object::new();
    g.insert("in".into(), a.clone());
    if let Some(b) = b {
        g.insert("b".into(), b.clone());
    }
    let r = std::panic::catch_unwind(std::panic::AssertUnwindSafe(|| crate::filter::eval_chain(&chain, &g)));
    outcome(r)
}

pub fn main(args: &[String]) -> i32 {
    let (mut cases, mut out) = (String::new(), String::new());
    let mut i = 0;
    while i < args.len() {
        match args[i].as_str() {
            "--corpus" => { cases = args[i + 1].clone(); i += 2; }
            "--out" => { out = args[i + 1].clone(); i += 2; }
            _ => i += 1,
        }
    }
    std::panic::set_hook(Box::new(|_| {}));
    let text = std::fs::read_to_string(&cases).expect("cases");
    let mut f = std::io::BufWriter::new(std::fs::File::create(&out).expect("out"));
    let (mut events, mut nontrivial) = (0u64, 0u64);
    let mut samples = Vec::new();
    for line in text.lines().filter(|l| !l.is_empty()) {
        let c: J = serde_json::from_str(line).expect("json");
        let op = c["op"].as_str().unwrap_or("");
        let a = match operand(&c["a"]) { Some(v) => v, None => continue };
        let b = if c["b"]["k"] == "none" { None } else { operand(&c["b"]) };
        let o = eval(op, &a, b.as_ref());
        let ev = json!({"e": "Eval", "op": op, "a": c["a"], "b": c["b"], "out": o});
        let _ = writeln!(f, "{}", ev);
        events += 1;
        if c["a"]["k"] == "int" || c["a"]["k"] == "float" { nontrivial += 1; }
        if samples.len() < 3 && op == "times" && c["a"]["k"] == "int" && events % 97 == 0 { samples.push(ev.clone()); }
        // integer divided_by and modulo of the same operands must fit together
        if op == "modulo" && b.is_some() && (c["a"]["k"] == "int" || c["a"].get("i").is_some())
            && (c["b"]["k"] == "int" || c["b"].get("i").is_some()) {
            let q = eval("divided_by", &a, b.as_ref());
            let _ = writeln!(f, "{}", json!({"e": "DivMod", "a": c["a"], "b": c["b"], "q": q, "r": o}));
            events += 1;
        }
    }
    let _ = writeln!(f, "{}", json!({"e": "End"}));
    let _ = f.flush();
    println!("TRACEINFO {}", json!({"traces": 1, "events": events + 1, "cases": events, "nontrivial": nontrivial, "samples": samples}));
    0
}
