//! Template AST (as emitted by the TLA+ specifications) -> Liquid source text.
//! This printer is the only trusted translation between the two sides.
use crate::val::{dec_text, literal_source};
use serde_json::Value as J;

type R<T> = Result<T, String>;

fn s<'a>(j: &'a J, k: &str) -> R<&'a str> {
    j.get(k).and_then(|x| x.as_str()).ok_or_else(|| format!("missing field {k} in {j}"))
}

fn arr<'a>(j: &'a J, k: &str) -> &'a [J] {
    j.get(k).and_then(|x| x.as_array()).map(|v| v.as_slice()).unwrap_or(&[])
}

fn is_ident(t: &str) -> bool {
    let mut cs = t.chars();
    match cs.next() {
        Some(c) if c.is_ascii_alphabetic() || c == '_' => {}
        _ => return false,
    }
    cs.all(|c| c.is_ascii_alphanumeric() || c == '_' || c == '-')
}

pub fn expr(e: &J) -> R<String> {
    match s(e, "e")? {
        "lit" => literal_source(&e["v"]),
        "var" => {
            let mut out = s(e, "name")?.to_string();
            for i in arr(e, "idx") {
                let dotted = if i["e"] == "lit" && i["v"]["k"] == "str" {
                    dec_text(&i["v"]["s"]).filter(|t| is_ident(t))
                } else {
                    None
                };
                match dotted {
                    Some(t) if i.get("br").is_none() => {
                        out.push('.');
                        out.push_str(&t);
                    }
                    _ => {
                        out.push('[');
                        out.push_str(&expr(i)?);
                        out.push(']');
                    }
                }
            }
            Ok(out)
        }
        other => Err(format!("unknown expression kind {other}")),
    }
}

fn cond(c: &J) -> R<String> {
    match s(c, "c")? {
        "truthy" => expr(&c["x"]),
        "bin" => Ok(format!("{} {} {}", expr(&c["l"])?, s(c, "op")?, expr(&c["r"])?)),
        k @ ("and" | "or") => Ok(format!("{} {} {}", cond(&c["l"])?, k, cond(&c["r"])?)),
        other => Err(format!("unknown condition kind {other}")),
    }
}

fn source(src: &J) -> R<String> {
    match s(src, "src")? {
        "range" => Ok(format!("({}..{})", expr(&src["lo"])?, expr(&src["hi"])?)),
        _ => expr(&src["x"]),
    }
}

fn attr(out: &mut String, name: &str, a: &J) -> R<()> {
    if a.get("has").and_then(|h| h.as_bool()) == Some(true) {
        out.push_str(&format!(" {}:{}", name, expr(&a["x"])?));
    }
    Ok(())
}

fn args(list: &[J]) -> R<String> {
    let mut parts = Vec::new();
    for a in list {
        parts.push(format!("{}: {}", s(a, "k")?, expr(&a["x"])?));
    }
    Ok(parts.join(", "))
}

pub fn block(b: &J) -> R<String> {
    let mut out = String::new();
    for st in b.as_array().map(|v| v.as_slice()).unwrap_or(&[]) {
        stmt(st, &mut out)?;
    }
    Ok(out)
}

fn text_of(j: &J) -> R<String> {
    dec_text(j).ok_or_else(|| format!("bad text {j}"))
}

fn if_chain(st: &J, kw: &str, out: &mut String) -> R<()> {
    out.push_str(&format!("{{% {} {} %}}", kw, cond(&st["cond"])?));
    out.push_str(&block(&st["then"])?);
    let els = arr(st, "else");
    if els.len() == 1 && els[0]["t"] == "if" && els[0].get("ei").is_some() {
        return if_chain(&els[0], "elsif", out);
    }
    if !els.is_empty() || st.get("forceelse").is_some() {
        out.push_str("{% else %}");
        out.push_str(&block(&st["else"])?);
    }
    Ok(())
}

pub fn stmt(st: &J, out: &mut String) -> R<()> {
    match s(st, "t")? {
        "text" => out.push_str(&text_of(&st["c"])?),
        "raw" => out.push_str(&format!("{{% raw %}}{}{{% endraw %}}", text_of(&st["c"])?)),
        "comment" => out.push_str(&format!("{{% comment %}}{}{{% endcomment %}}", block(&st["body"])?)),
        "out" => out.push_str(&format!("{{{{ {} }}}}", expr(&st["x"])?)),
        "assign" => out.push_str(&format!("{{% assign {} = {} %}}", s(st, "var")?, expr(&st["x"])?)),
        "inc" => out.push_str(&format!("{{% increment {} %}}", s(st, "var")?)),
        "dec" => out.push_str(&format!("{{% decrement {} %}}", s(st, "var")?)),
        "break" => out.push_str("{% break %}"),
        "continue" => out.push_str("{% continue %}"),
        "cycle" => {
            let vals: R<Vec<String>> = arr(st, "vals").iter().map(expr).collect();
            let vals = vals?.join(", ");
            if st["key"]["named"] == true {
                out.push_str(&format!("{{% cycle '{}': {} %}}", s(&st["key"], "g")?, vals));
            } else {
                out.push_str(&format!("{{% cycle {} %}}", vals));
            }
        }
        "if" => {
            if_chain(st, "if", out)?;
            out.push_str("{% endif %}");
        }
        "unless" => {
            out.push_str(&format!("{{% unless {} %}}", cond(&st["cond"])?));
            out.push_str(&block(&st["then"])?);
            if !arr(st, "else").is_empty() {
                out.push_str("{% else %}");
                out.push_str(&block(&st["else"])?);
            }
            out.push_str("{% endunless %}");
        }
        "case" => {
            out.push_str(&format!("{{% case {} %}}", expr(&st["x"])?));
            for w in arr(st, "whens") {
                let vals: R<Vec<String>> = arr(w, "vals").iter().map(expr).collect();
                let sep = if w.get("sep").and_then(|x| x.as_str()) == Some("or") { " or " } else { ", " };
                out.push_str(&format!("{{% when {} %}}", vals?.join(sep)));
                out.push_str(&block(&w["body"])?);
            }
            if !arr(st, "else").is_empty() {
                out.push_str("{% else %}");
                out.push_str(&block(&st["else"])?);
            }
            out.push_str("{% endcase %}");
        }
        "for" => {
            let mut head = format!("{{% for {} in {}", s(st, "var")?, source(&st["src"])?);
            attr(&mut head, "limit", &st["lim"])?;
            attr(&mut head, "offset", &st["off"])?;
            if st["rev"] == true {
                head.push_str(" reversed");
            }
            out.push_str(&head);
            out.push_str(" %}");
            out.push_str(&block(&st["body"])?);
            if !arr(st, "else").is_empty() {
                out.push_str("{% else %}");
                out.push_str(&block(&st["else"])?);
            }
            out.push_str("{% endfor %}");
        }
        "tablerow" => {
            let mut head = format!("{{% tablerow {} in {}", s(st, "var")?, source(&st["src"])?);
            attr(&mut head, "cols", &st["cols"])?;
            attr(&mut head, "limit", &st["lim"])?;
            attr(&mut head, "offset", &st["off"])?;
            out.push_str(&head);
            out.push_str(" %}");
            out.push_str(&block(&st["body"])?);
            out.push_str("{% endtablerow %}");
        }
        "capture" => {
            out.push_str(&format!("{{% capture {} %}}", s(st, "var")?));
            out.push_str(&block(&st["body"])?);
            out.push_str("{% endcapture %}");
        }
        "ifchanged" => {
            out.push_str("{% ifchanged %}");
            out.push_str(&block(&st["body"])?);
            out.push_str("{% endifchanged %}");
        }
        "include" => {
            let a = args(arr(st, "args"))?;
            out.push_str(&format!("{{% include {}{}{} %}}", expr(&st["name"])?, if a.is_empty() { "" } else { " " }, a));
        }
        "render" => {
            let mut head = format!("{{% render {}", expr(&st["name"])?);
            match st.get("mode").and_then(|m| m.as_str()).unwrap_or("plain") {
                "with" => head.push_str(&format!(" with {} as {}", expr(&st["with"])?, s(st, "as")?)),
                "for" => head.push_str(&format!(" for {} as {}", source(&st["src"])?, s(st, "as")?)),
                _ => {}
            }
            let a = args(arr(st, "args"))?;
            if !a.is_empty() {
                head.push_str(", ");
                head.push_str(&a);
            }
            out.push_str(&head);
            out.push_str(" %}");
        }
        other => return Err(format!("unknown statement kind {other}")),
    }
    Ok(())
}
