//! Replay of `parse` records (C01): the text must parse to a template or to an
//! error with a message under every parser configuration, and under the
//! standard configurations the outcome must be the verdict of LiquidSyntax.
use crate::val::dec_text;
use crate::Outcome;
use serde_json::{json, Value as J};

thread_local! {
    static STDLIB: liquid::Parser = liquid::ParserBuilder::with_stdlib().build().expect("parser");
    static ALL: liquid::Parser = liquid::ParserBuilder::with_stdlib()
        .filter(liquid_lib::jekyll::Slugify).filter(liquid_lib::jekyll::Pop).filter(liquid_lib::jekyll::Push)
        .filter(liquid_lib::jekyll::Shift).filter(liquid_lib::jekyll::Unshift)
        .filter(liquid_lib::jekyll::ArrayToSentenceString).filter(liquid_lib::jekyll::Sort)
        .filter(liquid_lib::shopify::Pluralize).filter(liquid_lib::extra::DateInTz)
        .build().expect("parser");
    static EMPTY: liquid::Parser = liquid::ParserBuilder::new().build().expect("parser");
}

/// Ok(true) = template, Ok(false) = error with a message, Err = what went wrong
pub fn parse_outcome(cfg: &str, src: &str) -> Result<bool, String> {
    let r = match cfg {
        "stdlib" => STDLIB.with(|p| p.parse(src).map(|_| ())),
        "all" => ALL.with(|p| p.parse(src).map(|_| ())),
        _ => EMPTY.with(|p| p.parse(src).map(|_| ())),
    };
    match r {
        Ok(()) => Ok(true),
        Err(e) => {
            if e.to_string().trim().is_empty() { Err("error without a message".into()) } else { Ok(false) }
        }
    }
}

pub fn run(rec: &J) -> Outcome {
    let nontrivial = rec.get("nt").and_then(|x| x.as_bool()).unwrap_or(true);
    let src = match dec_text(&rec["src"]) {
        Some(s) => s,
        None => return Outcome::fail(nontrivial, json!({"why": "harness: bad src"})),
    };
    let want = rec["expect"].as_str().unwrap_or("unspecified");
    for cfg in ["stdlib", "all", "empty"] {
        match parse_outcome(cfg, &src) {
            Err(e) => return Outcome::fail(nontrivial, json!({"why": "parse returned an error without a message", "info": {"src": src, "cfg": cfg, "e": e}})),
            Ok(ok) => {
                if cfg != "empty" && ((want == "accept" && !ok) || (want == "reject" && ok)) {
                    return Outcome::fail(nontrivial, json!({"why": "parse verdict differs from LiquidSyntax",
                        "info": {"src": src, "cfg": cfg, "got": if ok { "accept" } else { "reject" }, "want": want}}));
                }
            }
        }
    }
    Outcome::ok(nontrivial)
}
