//! The tagged JSON encoding of Liquid values shared with the TLA+ modules
//! (`[k |-> "int", n |-> 1]`, ...), in both directions.
use liquid_core::model::{Object, State, Value, ValueView};
use serde_json::{json, Value as J};

/// Text crosses either as a JSON string (ASCII, Interp family) or as an array
/// of Unicode scalar values (text/filter families).
pub fn dec_text(j: &J) -> Option<String> {
    match j {
        J::String(s) => Some(s.clone()),
        J::Array(a) => a
            .iter()
            .map(|c| c.as_u64().and_then(|c| char::from_u32(c as u32)))
            .collect(),
        _ => None,
    }
}

pub fn enc_text(s: &str) -> J {
    J::Array(s.chars().map(|c| json!(c as u32)).collect())
}

fn dec_f64(j: &J) -> Option<f64> {
    match j {
        J::Number(n) => n.as_f64(),
        J::String(s) => s.parse().ok(),
        _ => None,
    }
}

/// proleptic Gregorian date of a day number (days since 1970-01-01)
pub fn civil_from_days(z: i64) -> (i64, i64, i64) {
    let z = z + 719468;
    let era = if z >= 0 { z } else { z - 146096 } / 146097;
    let doe = z - era * 146097;
    let yoe = (doe - doe / 1460 + doe / 36524 - doe / 146096) / 365;
    let y = yoe + era * 400;
    let doy = doe - (365 * yoe + yoe / 4 - yoe / 100);
    let mp = (5 * doy + 2) / 153;
    let d = doy - (153 * mp + 2) / 5 + 1;
    let m = if mp < 10 { mp + 3 } else { mp - 9 };
    (if m <= 2 { y + 1 } else { y }, m, d)
}

fn dec_i64(j: &J) -> Option<i64> {
    match j {
        J::Number(n) => n.as_i64(),
        J::String(s) => s.parse().ok(),
        _ => None,
    }
}

pub fn dec_value(j: &J) -> Result<Value, String> {
    let k = j.get("k").and_then(|k| k.as_str()).ok_or_else(|| format!("value without kind: {j}"))?;
    Ok(match k {
        "int" => Value::scalar(dec_i64(&j["n"]).ok_or("bad int")?),
        "float" => {
            if let Some(sp) = j.get("special").and_then(|s| s.as_str()) {
                return Ok(Value::scalar(match sp {
                    "inf" => f64::INFINITY,
                    "-inf" => f64::NEG_INFINITY,
                    "nan" => f64::NAN,
                    "-0" => -0.0,
                    _ => return Err("bad float special".into()),
                }));
            }
            let num = dec_f64(&j["num"]).ok_or("bad float num")?;
            let den = dec_f64(&j["den"]).ok_or("bad float den")?;
            Value::scalar(num / den)
        }
        "date" => {
            let (y, m, d) = civil_from_days(dec_i64(&j["days"]).ok_or("bad date")?);
            Value::scalar(liquid_core::model::Date::from_ymd(y as i32, m as u8, d as u8))
        }
        "datetime" if j.get("text").is_some() => {
            // a date-time given in its printed form (sub-second values)
            let t = dec_text(&j["text"]).ok_or("bad datetime text")?;
            Value::scalar(liquid_core::model::DateTime::from_str(&t).ok_or("datetime text rejected")?)
        }
        "datetime" => {
            let inst = dec_i64(&j["inst"]).ok_or("bad datetime")?;
            let off = dec_i64(&j["off"]).ok_or("bad offset")? as i32;
            let dt = liquid_core::model::DateTime::from_str(&inst.to_string()).ok_or("timestamp rejected")?;
            let dt = dt.with_offset(time::UtcOffset::from_whole_seconds(off).map_err(|e| e.to_string())?);
            Value::scalar(dt)
        }
        "str" => Value::scalar(dec_text(&j["s"]).ok_or("bad str")?),
        "bool" => Value::scalar(j["b"].as_bool().ok_or("bad bool")?),
        "nil" => Value::Nil,
        "state" => match j["q"].as_str() {
            Some("empty") => Value::State(State::Empty),
            Some("blank") => Value::State(State::Blank),
            _ => return Err("bad state".into()),
        },
        "arr" => {
            let a = j["a"].as_array().ok_or("bad arr")?;
            Value::Array(a.iter().map(dec_value).collect::<Result<Vec<_>, _>>()?)
        }
        "obj" => Value::Object(dec_object(&j["o"])?),
        other => return Err(format!("unknown value kind {other}")),
    })
}

/// `o` is a JSON object; TLC prints the empty function as `[]`.
pub fn dec_object(j: &J) -> Result<Object, String> {
    let mut o = Object::new();
    match j {
        J::Object(m) => {
            for (k, v) in m {
                o.insert(k.clone().into(), dec_value(v)?);
            }
        }
        J::Array(a) if a.is_empty() => {}
        J::Null => {}
        _ => return Err(format!("bad object {j}")),
    }
    Ok(o)
}

/// Source text of a literal as a template author would write it.
pub fn literal_source(j: &J) -> Result<String, String> {
    let k = j.get("k").and_then(|k| k.as_str()).unwrap_or("");
    Ok(match k {
        "int" => format!("{}", dec_i64(&j["n"]).ok_or("bad int")?),
        "float" => {
            let num = dec_i64(&j["num"]).ok_or("bad num")? as f64;
            let den = dec_i64(&j["den"]).ok_or("bad den")? as f64;
            let f = num / den;
            if f.fract() == 0.0 {
                format!("{:.1}", f)
            } else {
                format!("{}", f)
            }
        }
        "str" => {
            let s = dec_text(&j["s"]).ok_or("bad str")?;
            if !s.contains('\'') {
                format!("'{}'", s)
            } else if !s.contains('"') {
                format!("\"{}\"", s)
            } else {
                return Err("string literal with both quote kinds".into());
            }
        }
        "bool" => format!("{}", j["b"].as_bool().ok_or("bad bool")?),
        "nil" => "nil".to_string(),
        "state" => j["q"].as_str().unwrap_or("empty").to_string(),
        other => return Err(format!("no literal syntax for kind {other}")),
    })
}

/// Structural dump of an implementation value in the shared encoding
/// (floats are reported by their exact bits as num/2^e).
pub fn enc_value(v: &dyn ValueView) -> J {
    if v.is_nil() {
        return json!({"k": "nil"});
    }
    if let Some(s) = v.as_state() {
        return json!({"k": "state", "q": match s { State::Empty => "empty", State::Blank => "blank",
            State::Truthy => "truthy", State::DefaultValue => "default" }});
    }
    if let Some(a) = v.as_array() {
        return json!({"k": "arr", "a": a.values().map(enc_value).collect::<Vec<_>>()});
    }
    if let Some(o) = v.as_object() {
        let mut m = serde_json::Map::new();
        for (k, x) in o.iter() {
            m.insert(k.to_string(), enc_value(x));
        }
        return json!({"k": "obj", "o": m});
    }
    if let Some(s) = v.as_scalar() {
        let val = s.to_value();
        if let Value::Scalar(sc) = &val {
            let tn = sc.type_name();
            return match tn {
                "whole number" => json!({"k": "int", "n": sc.to_integer().unwrap_or(0).to_string()}),
                "fractional number" => enc_float(sc.to_float().unwrap_or(f64::NAN)),
                "boolean" => json!({"k": "bool", "b": sc.to_bool().unwrap_or(false)}),
                "string" => json!({"k": "str", "s": enc_text(sc.to_kstr().as_str())}),
                other => json!({"k": other, "s": enc_text(sc.to_kstr().as_str())}),
            };
        }
    }
    json!({"k": "unknown"})
}

/// exact dyadic form of a double: num / 2^e  (num odd or zero), or a token
pub fn enc_float(f: f64) -> J {
    if f.is_nan() {
        return json!({"k": "float", "special": "nan"});
    }
    if f.is_infinite() {
        return json!({"k": "float", "special": if f > 0.0 { "inf" } else { "-inf" }});
    }
    if f == 0.0 {
        return json!({"k": "float", "num": "0", "e": 0, "negzero": f.is_sign_negative()});
    }
    let bits = f.to_bits();
    let sign = if (bits >> 63) == 1 { -1i128 } else { 1 };
    let exp = ((bits >> 52) & 0x7ff) as i64;
    let frac = (bits & ((1u64 << 52) - 1)) as i128;
    let (mut m, mut e) = if exp == 0 { (frac, -1074i64) } else { (frac | (1i128 << 52), exp - 1075) };
    while m % 2 == 0 {
        m /= 2;
        e += 1;
    }
    // value = m * 2^e ; report as num / 2^(-e) when e < 0, else num*2^e / 1
    if e >= 0 {
        // up to 2^1023: too wide for i128 when e large; report mantissa and binary exponent
        json!({"k": "float", "num": (sign * m).to_string(), "e": 0, "shl": e})
    } else {
        json!({"k": "float", "num": (sign * m).to_string(), "e": -e})
    }
}
