//! Replay of C12 records: a datum observed through every view and conversion
//! must present the observation table LiquidViews defines.
use crate::val::{dec_text, dec_value};
use crate::Outcome;
use liquid::{ObjectView, ValueView};
use liquid_core::model::{from_value, to_object, to_value, Object, State, Value, ValueCow, ValueViewCmp};
use serde::{Deserialize, Serialize};
use serde_json::{json, Value as J};
use std::collections::{BTreeMap, HashMap};

fn observe(v: &dyn ValueView, probes: &[Value]) -> J {
    json!({
        "type_name": v.type_name(),
        "render": v.render().to_string(),
        "to_kstr": v.to_kstr().to_string(),
        "truthy": v.query_state(State::Truthy), "default": v.query_state(State::DefaultValue),
        "empty": v.query_state(State::Empty), "blank": v.query_state(State::Blank),
        "is_nil": v.is_nil(), "is_scalar": v.is_scalar(), "is_array": v.is_array(), "is_object": v.is_object(),
        "size": v.as_array().map(|a| a.size()).or_else(|| v.as_object().map(|o| o.size())).unwrap_or(-1),
        "eq": probes.iter().map(|p| ValueViewCmp::new(v) == ValueViewCmp::new(p.as_view())).collect::<Vec<_>>(),
    })
}

fn check(name: &str, got: &J, want: &J) -> Result<(), J> {
    // every differing field is reported: `field` is the first, `also` the rest (a known finding about one field must not
    // hide another difference of the same view)
    let mut bad: Vec<(String, J, J)> = Vec::new();
    for k in ["type_name", "truthy", "default", "empty", "blank", "is_nil", "is_scalar", "is_array", "is_object", "size", "eq"] {
        if got[k] != want[k] {
            bad.push((k.to_string(), got[k].clone(), want[k].clone()));
        }
    }
    if let Some(s) = want["render"].get("s") {
        let w = dec_text(s).unwrap_or_default();
        if got["render"].as_str() != Some(w.as_str()) || got["to_kstr"].as_str() != Some(w.as_str()) {
            bad.push(("render/to_kstr".to_string(), json!([got["render"], got["to_kstr"]]), json!(w)));
        }
    }
    if bad.is_empty() {
        return Ok(());
    }
    let also: Vec<&str> = bad.iter().skip(1).map(|b| b.0.as_str()).collect();
    Err(json!({"view": name, "field": bad[0].0, "got": bad[0].1, "want": bad[0].2, "also": also}))
}

/// the same datum as native Rust collections (None when it has no such form)
fn as_native(v: &Value) -> Option<Value> {
    match v {
        Value::Array(a) => {
            let native: Vec<Value> = a.clone();
            to_value(&native).ok()
        }
        Value::Object(o) => {
            let h: HashMap<String, Value> = o.iter().map(|(k, v)| (k.to_string(), v.clone())).collect();
            let b: BTreeMap<String, Value> = o.iter().map(|(k, v)| (k.to_string(), v.clone())).collect();
            let (vh, vb) = (to_value(&h).ok()?, to_value(&b).ok()?);
            if ValueViewCmp::new(vh.as_view()) == ValueViewCmp::new(vb.as_view()) { Some(vh) } else { None }
        }
        _ => None,
    }
}

pub fn run_views(rec: &J) -> Outcome {
    let nontrivial = rec.get("nt").and_then(|x| x.as_bool()).unwrap_or(true);
    let fail = |why: &str, extra: J| Outcome::fail(nontrivial, json!({"why": why, "info": extra}));
    let v = match dec_value(&rec["v"]) { Ok(v) => v, Err(e) => return fail("harness: cannot decode", json!(e)) };
    let probes: Vec<Value> = rec["probes"].as_array().unwrap_or(&Vec::new()).iter().filter_map(|p| dec_value(p).ok()).collect();
    let want = &rec["obs"];
    let mut views: Vec<(&str, Value)> = Vec::new();
    // direct and borrowed
    if let Err(d) = check("Value", &observe(&v, &probes), want) { return fail("view differs from LiquidViews", d); }
    if let Err(d) = check("&Value", &observe(&&v, &probes), want) { return fail("view differs from LiquidViews", d); }
    let (owned, borrowed) = (ValueCow::Owned(v.clone()), ValueCow::Borrowed(&v));
    if let Err(d) = check("ValueCow::Owned", &observe(&owned, &probes), want) { return fail("view differs from LiquidViews", d); }
    if let Err(d) = check("ValueCow::Borrowed", &observe(&borrowed, &probes), want) { return fail("view differs from LiquidViews", d); }
    if let Err(d) = check("Option<Value>", &observe(&Some(v.clone()), &probes), want) { return fail("view differs from LiquidViews", d); }
    // a Rust String (and &str) seen directly through its own ValueView impl, alone and inside the std containers
    if v.type_name() == "string" {
        let st: String = v.to_kstr().into_string();
        if let Err(d) = check("String", &observe(&st, &probes), want) { return fail("view differs from LiquidViews", d); }
        if let Err(d) = check("&str", &observe(&st.as_str(), &probes), want) { return fail("view differs from LiquidViews", d); }
        if let Err(d) = check("Option<String>", &observe(&Some(st.clone()), &probes), want) { return fail("view differs from LiquidViews", d); }
        let vs: Vec<String> = vec![st.clone()];
        if let Some(x) = liquid_core::model::ArrayView::get(&vs, 0) {
            if let Err(d) = check("Vec<String>[0]", &observe(x, &probes), want) { return fail("view differs from LiquidViews", d); }
        }
        let mut hm: HashMap<String, String> = HashMap::new();
        hm.insert("k".to_string(), st.clone());
        if let Some(x) = ObjectView::get(&hm, "k") {
            if let Err(d) = check("HashMap<String,String>[k]", &observe(x, &probes), want) { return fail("view differs from LiquidViews", d); }
        }
    }
    // conversions
    views.push(("to_value()", v.as_view().to_value()));
    views.push(("ValueCow::into_owned", borrowed.clone().into_owned()));
    match to_value(&v) { Ok(x) => views.push(("serde to_value", x)), Err(e) => return fail("serde to_value failed", json!(e.to_string())) }
    match from_value::<Value>(&v) { Ok(x) => views.push(("serde from_value", x)), Err(e) => return fail("serde from_value failed", json!(e.to_string())) }
    match serde_json::to_string(&v).map_err(|e| e.to_string()).and_then(|t| serde_json::from_str::<Value>(&t).map_err(|e| e.to_string())) {
        Ok(x) => views.push(("serde_json round trip", x)),
        Err(e) => return fail("serde_json round trip failed", json!(e)),
    }
    if let Some(n) = as_native(&v) { views.push(("native Vec / HashMap / BTreeMap", n)); }
    if let Value::Object(o) = &v {
        match to_object(o) { Ok(x) => views.push(("to_object", Value::Object(x))), Err(e) => return fail("to_object failed", json!(e.to_string())) }
        let as_json = serde_json::to_string(o).unwrap_or_default();
        match serde_json::from_str::<Object>(&as_json) { Ok(x) => views.push(("JSON text -> Object", Value::Object(x))), Err(e) => return fail("JSON -> Object failed", json!(e.to_string())) }
    }
    for (name, x) in &views {
        if let Err(d) = check(name, &observe(x, &probes), want) { return fail("view differs from LiquidViews", d); }
        if ValueViewCmp::new(x.as_view()) != ValueViewCmp::new(v.as_view()) && want["eq_self"] != false {
            return fail("a converted datum is not equal to the original", json!({"view": name}));
        }
    }
    Outcome::ok(nontrivial)
}

#[derive(Serialize, Deserialize, liquid::ObjectView, liquid::ValueView, Debug, Clone)]
struct Inner { x: String, n: Option<bool> }
#[derive(Serialize, Deserialize, liquid::ObjectView, liquid::ValueView, Debug, Clone)]
struct S { i: i64, f: f64, b: bool, s: String, v: Vec<i64>, o: Option<i64>, inner: Inner }

thread_local! {
    static TPL: liquid::Template = liquid::ParserBuilder::with_stdlib().build().expect("parser")
        .parse("{{ s.i }}|{{ s.f }}|{{ s.b }}|{{ s.s }}|{{ s.v }}|{{ s.o }}|{{ s.inner.x }}|{{ s.inner.n }}|{{ s.v.size }}|{{ s.size }}").expect("template");
}

pub fn run_struct(rec: &J) -> Outcome {
    let fail = |why: &str, extra: J| Outcome::fail(true, json!({"why": why, "info": extra}));
    let r = &rec["r"];
    let opt_i = |j: &J| if j["k"] == "nil" { None } else { j["n"].as_i64() };
    let opt_b = |j: &J| if j["k"] == "nil" { None } else { j["b"].as_bool() };
    let f = r["f"]["num"].as_f64().unwrap_or(0.0) / r["f"]["den"].as_f64().unwrap_or(1.0);
    let s = S { i: r["i"].as_i64().unwrap_or(0), f, b: r["b"].as_bool().unwrap_or(false), s: r["s"].as_str().unwrap_or("").to_string(),
                v: r["v"].as_array().map(|a| a.iter().filter_map(|x| x.as_i64()).collect()).unwrap_or_default(), o: opt_i(&r["o"]),
                inner: Inner { x: r["x"].as_str().unwrap_or("").to_string(), n: opt_b(&r["n"]) } };
    let probes: Vec<Value> = rec["probes"].as_array().unwrap_or(&Vec::new()).iter().filter_map(|p| dec_value(p).ok()).collect();
    let want = &rec["obs"];
    // the derived views
    if let Err(d) = check("derive(ValueView)", &observe(&s, &probes), want) { return fail("derived struct differs from LiquidViews", d); }
    let twin = match to_object(&s) { Ok(o) => o, Err(e) => return fail("to_object failed", json!(e.to_string())) };
    if let Err(d) = check("serde twin", &observe(&twin, &probes), want) { return fail("serde-converted struct differs from LiquidViews", d); }
    if let Err(d) = check("derived to_value()", &observe(&s.to_value(), &probes), want) { return fail("derived to_value differs", d); }
    let back = match from_value::<S>(&twin) {
        Ok(back) => { if let Err(d) = check("from_value::<S>", &observe(&back, &probes), want) { return fail("struct rebuilt by from_value differs", d); } back }
        Err(e) => return fail("from_value::<S> failed", json!(e.to_string())),
    };
    // in templates: the derived struct and its serde twin print the same, and what the specification says
    let wr = rec["render"].as_str().unwrap_or("");
    let mut g1: HashMap<String, &dyn ValueView> = HashMap::new();
    g1.insert("s".to_string(), &s as &dyn ValueView);
    let mut g2 = liquid::Object::new();
    g2.insert("s".into(), Value::Object(twin));
    let (o1, o2) = TPL.with(|t| (t.render(&g1).map_err(|e| e.to_string()), t.render(&g2).map_err(|e| e.to_string())));
    // the struct that came back from the Liquid side (Rust -> Liquid -> Rust) prints the same, field by field
    let mut g3: HashMap<String, &dyn ValueView> = HashMap::new();
    g3.insert("s".to_string(), &back as &dyn ValueView);
    let o3 = TPL.with(|t| t.render(&g3).map_err(|e| e.to_string()));
    if o3.as_deref() != Ok(wr) {
        return fail("a struct rebuilt by from_value renders differently", json!({"rebuilt": o3, "want": wr}));
    }
    if o1 != o2 || o1.as_deref() != Ok(wr) {
        return fail("derived struct and its serde twin render differently, or not as specified", json!({"derived": o1, "twin": o2, "want": wr}));
    }
    Outcome::ok(true)
}

/// integers across the i64 / u64 boundaries: in range -> that integer; otherwise rejected or a float, never another integer
pub fn run_serdeint(rec: &J) -> Outcome {
    let fail = |why: &str, extra: J| Outcome::fail(true, json!({"why": why, "info": extra}));
    let text = rec["text"].as_str().unwrap_or("0");
    let exact: Option<i64> = text.parse::<i64>().ok();
    let mut outcomes: Vec<(&str, Option<Value>)> = Vec::new();
    outcomes.push(("JSON -> Object", serde_json::from_str::<Object>(&format!("{{\"n\": {text}}}")).ok().and_then(|o| o.get("n").cloned())));
    outcomes.push(("JSON -> Value", serde_json::from_str::<Value>(text).ok()));
    if let Ok(u) = text.parse::<u64>() { outcomes.push(("to_value(&u64)", to_value(&u).ok())); }
    if let Ok(i) = text.parse::<i128>() { outcomes.push(("to_value(&i128)", to_value(&i).ok())); }
    if let Ok(u) = text.parse::<u64>() {
        #[derive(Serialize)] struct W { n: u64 }
        outcomes.push(("to_object(struct{u64})", to_object(&W { n: u }).ok().and_then(|o| o.get("n").cloned())));
    }
    for (name, out) in outcomes {
        match (exact, out) {
            (_, None) => {}                                         // rejected
            (Some(e), Some(v)) => {
                let got = v.as_scalar().and_then(|s| s.to_integer());
                if got != Some(e) || v.type_name() != "whole number" {
                    return fail("an integer in range was not carried exactly", json!({"via": name, "text": text, "got": v.render().to_string(), "type": v.type_name()}));
                }
            }
            (None, Some(v)) => {
                if v.type_name() == "whole number" {
                    return fail("an integer outside the 64-bit range became a different integer", json!({"via": name, "text": text, "got": v.render().to_string()}));
                }
                if v.type_name() == "fractional number" {
                    let f = v.as_scalar().and_then(|s| s.to_float()).unwrap_or(f64::NAN);
                    let want: f64 = text.parse().unwrap_or(f64::NAN);
                    if f != want { return fail("an integer outside the 64-bit range became a different number", json!({"via": name, "text": text, "got": f})); }
                }
            }
        }
    }
    Outcome::ok(true)
}
