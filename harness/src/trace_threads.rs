//! C20 (binding B): real threads sharing one Parser (lazy partial store) and
//! its Templates; records Call / Miss / Return events for Trace_Threads.tla.
use crate::util::Rng;
use liquid::partials::{LazyCompiler, PartialSource};
use serde_json::{json, Value as J};
use std::borrow::Cow;
use std::collections::HashMap;
use std::io::Write;
use std::sync::atomic::{AtomicUsize, Ordering};
use std::sync::{Arc, Barrier, Mutex};

type Log = Arc<Mutex<Vec<J>>>;

thread_local! {
    static TID: std::cell::Cell<usize> = const { std::cell::Cell::new(0) };
}

#[derive(Debug)]
struct LoggingSource {
    map: HashMap<String, String>,
    log: Option<Log>,
    inside: AtomicUsize,
    seq: AtomicUsize,
    dwell_us: u64,
}

impl PartialSource for LoggingSource {
    fn contains(&self, name: &str) -> bool {
        self.map.contains_key(name)
    }
    fn names(&self) -> Vec<&str> {
        self.map.keys().map(|s| s.as_str()).collect()
    }
    fn try_get<'a>(&'a self, name: &str) -> Option<Cow<'a, str>> {
        // the lazy store calls this while holding its cache mutex: a miss of the cache
        let inside = self.inside.fetch_add(1, Ordering::SeqCst) + 1;
        let seq = self.seq.fetch_add(1, Ordering::SeqCst) + 1;
        let found = self.map.get(name);
        if let Some(log) = &self.log {
            let t = TID.with(|t| t.get());
            log.lock().unwrap().push(json!({"e": "Miss", "seq": seq, "t": format!("t{t}"), "name": name,
                                            "found": found.is_some(), "inside": inside}));
            if self.dwell_us > 0 {
                // dwell inside the critical section so that other threads pile up on the lock
                std::thread::sleep(std::time::Duration::from_micros(self.dwell_us));
            }
        }
        self.inside.fetch_sub(1, Ordering::SeqCst);
        found.map(|s| Cow::Borrowed(s.as_str()))
    }
}

fn sources() -> HashMap<String, String> {
    let mut m = HashMap::new();
    m.insert("p1".into(), "[{% cycle 'x','y','z' %}{% increment c %}{% ifchanged %}{{ v }}{% endifchanged %}]".into());
    m.insert("p2".into(), "<{{ v }}{% for k in (1..3) %}{% if k == 2 %}{% break %}{% endif %}{{ k }}{% endfor %}{% assign w = v %}>".into());
    m.insert("q.liquid".into(), "Q{% include 'p1' %}".into());
    m.insert("b1".into(), "{% if x %}unclosed".into());
    m
}

const TEMPLATES: [&str; 7] = [
    "{% include 'p1' %}|{% cycle 'a','b' %}{% cycle 'a','b' %}{% increment c %}{% ifchanged %}x{% endifchanged %}{% ifchanged %}x{% endifchanged %}{% include 'p1' %}",
    "{% for i in (1..3) %}{% render 'p2', v: i %}{% if i == 2 %}{% break %}{% endif %}{% endfor %}{% capture q %}{% include 'p1' %}{% endcapture %}{{ q }}{{ q }}",
    "a{% include 'b1' %}b",
    "{% render 'nosuch' %}",
    "{% include pv %}{% decrement d %}{% render 'q' %}",
    "{% for i in (1..4) %}{% cycle 'o','e' %}{% continue %}never{% endfor %}{% render pv, v: 7 %}",
    "{% if v %}{% render 'b1' %}{% else %}{% include 'p2' %}{% endif %}",
];
const PARSE_SOURCES: [&str; 4] = ["{{ a | upcase }}{% if a %}x{% endif %}", "{% if %}", "{% for i in (1..2) %}{{i}}", "plain {{ 'text' }}"];

fn datas() -> Vec<liquid::Object> {
    vec![
        liquid::object!({"v": 1, "pv": "p1"}),
        liquid::object!({"v": "two", "pv": "p2"}),
        liquid::object!({"pv": "b1"}),
        liquid::object!({"v": false, "pv": "nosuch"}),
    ]
}

#[derive(Clone, Copy, Debug)]
enum Op {
    Render(usize, usize),
    Parse(usize),
}

fn outcome(r: Result<String, liquid::Error>) -> J {
    match r {
        Ok(s) => json!({"ok": true, "out": s}),
        Err(_) => json!({"ok": false}),
    }
}

fn build(log: Option<Log>, dwell_us: u64) -> liquid::Parser {
    let src = LoggingSource { map: sources(), log, inside: AtomicUsize::new(0), seq: AtomicUsize::new(0), dwell_us };
    liquid::ParserBuilder::with_stdlib().partials(LazyCompiler::new(src)).build().expect("parser")
}

fn exec(parser: &liquid::Parser, templates: &[liquid::Template], data: &[liquid::Object], op: Op) -> J {
    match op {
        Op::Render(i, j) => outcome(templates[i].render(&data[j])),
        Op::Parse(k) => json!({"ok": parser.parse(PARSE_SOURCES[k]).is_ok()}),
    }
}

pub fn main(args: &[String]) -> i32 {
    let mut out = String::new();
    let mut seed = 1u64;
    let mut runs = 100usize;
    let mut i = 0;
    while i < args.len() {
        match args[i].as_str() {
            "--out" => { out = args[i + 1].clone(); i += 2; }
            "--seed" => { seed = args[i + 1].parse().unwrap(); i += 2; }
            "--runs" => { runs = args[i + 1].parse().unwrap(); i += 2; }
            _ => i += 1,
        }
    }
    let mut rng = Rng::new(seed);
    let data = Arc::new(datas());
    // what every call returns when executed alone, on a fresh parser each time
    let mut alone: HashMap<String, J> = HashMap::new();
    for ti in 0..TEMPLATES.len() {
        for dj in 0..data.len() {
            let p = build(None, 0);
            let t: Vec<liquid::Template> = TEMPLATES.iter().map(|s| p.parse(s).expect("template parses")).collect();
            alone.insert(format!("r{ti}.{dj}"), exec(&p, &t, &data, Op::Render(ti, dj)));
        }
    }
    for k in 0..PARSE_SOURCES.len() {
        let p = build(None, 0);
        alone.insert(format!("p{k}"), exec(&p, &[], &data, Op::Parse(k)));
    }
    let alone = Arc::new(alone);
    let mut f = std::io::BufWriter::new(std::fs::File::create(&out).expect("out"));
    let (mut events, mut calls, mut misses, mut hung) = (0u64, 0u64, 0u64, 0u64);
    let mut samples = Vec::new();
    for run in 0..runs {
        let n = 2 + rng.below(15); // 2..16 threads
        let dwell = [0u64, 0, 50, 300, 1500][rng.below(5)];
        let per_thread = 3 + rng.below(5);
        let log: Log = Arc::new(Mutex::new(Vec::new()));
        let parser = Arc::new(build(Some(log.clone()), dwell));
        let templates: Arc<Vec<liquid::Template>> =
            Arc::new(TEMPLATES.iter().map(|s| parser.parse(s).expect("template parses")).collect());
        let barrier = Arc::new(Barrier::new(n));
        let (tx, rx) = std::sync::mpsc::channel::<usize>();
        let mut plans = Vec::new();
        for _ in 0..n {
            let mut plan = Vec::new();
            for _ in 0..per_thread {
                if rng.chance(1, 6) {
                    plan.push(Op::Parse(rng.below(PARSE_SOURCES.len())));
                } else {
                    plan.push(Op::Render(rng.below(TEMPLATES.len()), rng.below(data.len())));
                }
            }
            plans.push((plan, rng.below(300) as u64, rng.next()));
        }
        for (ti, (plan, skew, yseed)) in plans.into_iter().enumerate() {
            let (log, parser, templates, data, barrier, alone, tx) =
                (log.clone(), parser.clone(), templates.clone(), data.clone(), barrier.clone(), alone.clone(), tx.clone());
            std::thread::spawn(move || {
                let tid = ti + 1;
                TID.with(|t| t.set(tid));
                let mut yr = Rng::new(yseed);
                barrier.wait();
                if skew > 0 {
                    std::thread::sleep(std::time::Duration::from_micros(skew));
                }
                for (c, op) in plan.into_iter().enumerate() {
                    let key = match op { Op::Render(i, j) => format!("r{i}.{j}"), Op::Parse(k) => format!("p{k}") };
                    log.lock().unwrap().push(json!({"e": "Call", "t": format!("t{tid}"), "c": c, "op": key}));
                    let r = std::panic::catch_unwind(std::panic::AssertUnwindSafe(|| exec(&parser, &templates, &data, op)));
                    let res = r.unwrap_or(json!({"panic": true}));
                    log.lock().unwrap().push(json!({"e": "Return", "t": format!("t{tid}"), "c": c, "res": res, "alone": alone[&key]}));
                    if yr.chance(1, 3) {
                        std::thread::yield_now();
                    }
                }
                let _ = tx.send(tid);
            });
        }
        drop(tx);
        // watchdog: a deadlock shows up as Calls without their Returns
        let deadline = std::time::Instant::now() + std::time::Duration::from_secs(30);
        let mut finished = 0;
        while finished < n {
            let left = deadline.saturating_duration_since(std::time::Instant::now());
            match rx.recv_timeout(left) {
                Ok(_) => finished += 1,
                Err(_) => { hung += 1; break; }
            }
        }
        let evs = log.lock().unwrap().clone();
        let reset = json!({"e": "Reset", "run": run, "threads": n, "dwell_us": dwell});
        let _ = writeln!(f, "{}", reset);
        events += 1;
        for e in &evs {
            let _ = writeln!(f, "{}", e);
            events += 1;
            match e["e"].as_str() {
                Some("Call") => calls += 1,
                Some("Miss") => misses += 1,
                _ => {}
            }
        }
        if samples.len() < 2 && evs.len() > 8 {
            samples.push(json!({"threads": n, "first_events": evs.iter().take(8).collect::<Vec<_>>()}));
        }
        if finished < n {
            break; // hung threads hold the shared objects; stop recording here
        }
    }
    let _ = writeln!(f, "{}", json!({"e": "End"}));
    events += 1;
    let _ = f.flush();
    println!("TRACEINFO {}", json!({"traces": runs, "events": events, "cases": calls, "nontrivial": calls,
        "misses": misses, "hung_runs": hung, "samples": samples}));
    0
}
