//! C20 (binding B): real threads sharing one Parser (lazy partial store) and
//! its Templates; records Call / Miss / Return events for Trace_Threads.tla.
use crate::util::Rng;
use liquid::partials::{LazyCompiler, OnDemandCompiler, PartialSource};
use serde_json::{json, Value as J};
use std::borrow::Cow;
use std::collections::HashMap;
use std::io::Write;
use std::sync::atomic::{AtomicUsize, Ordering};
use std::sync::{Arc, Barrier, Mutex};

type Log = Arc<Mutex<Vec<J>>>;

thread_local! {
    static TID: std::cell::Cell<usize> = const { std::cell::Cell::new(0) };
}

#[derive(Debug)]
struct LoggingSource {
    map: HashMap<String, String>,
    log: Option<Log>,
    inside: AtomicUsize,
    seq: AtomicUsize,
    dwell_us: u64,
}

impl PartialSource for LoggingSource {
    fn contains(&self, name: &str) -> bool {
        self.map.contains_key(name)
    }
    fn names(&self) -> Vec<&str> {
        self.map.keys().map(|s| s.as_str()).collect()
    }
    fn try_get<'a>(&'a self, name: &str) -> Option<Cow<'a, str>> {
        // the lazy store calls this while holding its cache mutex: a miss of the cache
        let inside = self.inside.fetch_add(1, Ordering::SeqCst) + 1;
        let seq = self.seq.fetch_add(1, Ordering::SeqCst) + 1;
        let found = self.map.get(name);
        if let Some(log) = &self.log {
            let t = TID.with(|t| t.get());
            log.lock().unwrap().push(json!({"e": "Miss", "seq": seq, "t": format!("t{t}"), "name": name,
                                            "found": found.is_some(), "inside": inside}));
            if self.dwell_us > 0 {
                // dwell inside the critical section so that other threads pile up on the lock
                std::thread::sleep(std::time::Duration::from_micros(self.dwell_us));
            }
        }
        self.inside.fetch_sub(1, Ordering::SeqCst);
        found.map(|s| Cow::Borrowed(s.as_str()))
    }
}

fn sources() -> HashMap<String, String> {
    let mut m = HashMap::new();
    m.insert("p1".into(), "[{% cycle 'x','y','z' %}{% increment c %}{% ifchanged %}{{ v }}{% endifchanged %}]".into());
    m.insert("p2".into(), "<{{ v }}{% for k in (1..3) %}{% if k == 2 %}{% break %}{% endif %}{{ k }}{% endfor %}{% assign w = v %}>".into());
    m.insert("q.liquid".into(), "Q{% include 'p1' %}".into());
    m.insert("b1".into(), "{% if x %}unclosed".into());
    // a partial that includes, through a name taken from the data, itself (depth bounded by the data) or a leaf,
    // so that one tag instance is used recursively by one thread and with another name by another thread
    m.insert("node".into(), "({{ n }}{% include 'leaf' %}{% if n < 4 %}{% assign n = n | plus: 1 %}{% include nm %}{% endif %})".into());
    m.insert("leaf".into(), ".".into());
    m
}

const TEMPLATES: [&str; 11] = [
    "{% include 'p1' %}|{% cycle 'a','b' %}{% cycle 'a','b' %}{% increment c %}{% ifchanged %}x{% endifchanged %}{% ifchanged %}x{% endifchanged %}{% include 'p1' %}",
    "{% for i in (1..3) %}{% render 'p2', v: i %}{% if i == 2 %}{% break %}{% endif %}{% endfor %}{% capture q %}{% include 'p1' %}{% endcapture %}{{ q }}{{ q }}",
    "a{% include 'b1' %}b",
    "{% render 'nosuch' %}",
    "{% include pv %}{% decrement d %}{% render 'q' %}",
    "{% for i in (1..4) %}{% cycle 'o','e' %}{% continue %}never{% endfor %}{% render pv, v: 7 %}",
    "{% if v %}{% render 'b1' %}{% else %}{% include 'p2' %}{% endif %}",
    "{% assign n = 1 %}{% include 'node' %}",
    "{% assign n = 3 %}{% include 'node' %}|{% render 'node', n: 2 %}",
    // interrupt-dense: hundreds of break / continue requests per render, so that overlapping renders raise and consume
    // interrupts at the same time
    "{% for i in (1..150) %}{% for j in (1..3) %}{% if j == 2 %}{% break %}{% endif %}{{ j }}{% endfor %}.{% endfor %}",
    "{% for i in (1..150) %}{% for j in (1..3) %}{% if j == 2 %}{% continue %}{% endif %}{{ j }}{% endfor %}{% if i == 149 %}{% break %}{% endif %},{% endfor %}",
];
const PARSE_SOURCES: [&str; 6] = ["{{ a | upcase }}{% if a %}x{% endif %}", "{% if %}", "{% for i in (1..2) %}{{i}}", "plain {{ 'text' }}",
    // errors deep inside nested blocks, and a valid nest: parsing keeps no state from one call to the next, on any thread
    "{% if a %}{% for i in (1..2) %}{% capture c %}{% if %}{% endcapture %}{% endfor %}{% endif %}",
    "{% if a %}{% for i in (1..2) %}{% case i %}{% when 1 %}x{% endcase %}{% endfor %}{% endif %}"];

fn datas() -> Vec<liquid::Object> {
    vec![
        liquid::object!({"v": 1, "pv": "p1", "nm": "node"}),
        liquid::object!({"v": "two", "pv": "p2", "nm": "leaf"}),
        liquid::object!({"pv": "b1", "nm": "node"}),
        liquid::object!({"v": false, "pv": "nosuch", "nm": "p1"}),
    ]
}

#[derive(Clone, Copy, Debug)]
enum Op {
    Render(usize, usize),
    Parse(usize),
}

fn outcome(r: Result<String, liquid::Error>) -> J {
    match r {
        Ok(s) => json!({"ok": true, "out": s}),
        Err(_) => json!({"ok": false}),
    }
}

fn build(log: Option<Log>, dwell_us: u64, policy: &str) -> liquid::Parser {
    let src = LoggingSource { map: sources(), log, inside: AtomicUsize::new(0), seq: AtomicUsize::new(0), dwell_us };
    let b = liquid::ParserBuilder::with_stdlib();
    match policy {
        // compiles on every use, without a lock: every look-up reaches the source (and dwells there)
        "ondemand" => b.partials(OnDemandCompiler::new(src)).build().expect("parser"),
        _ => b.partials(LazyCompiler::new(src)).build().expect("parser"),
    }
}

/// A sink that dawdles: stretches every window in which the renderer holds something across a write.
struct SlowWriter {
    buf: Vec<u8>,
    delay_us: u64,
    n: u64,
}
impl Write for SlowWriter {
    fn write(&mut self, b: &[u8]) -> std::io::Result<usize> {
        self.n += 1;
        if self.n % 2 == 0 {
            std::thread::sleep(std::time::Duration::from_micros(self.delay_us));
        } else {
            std::thread::yield_now();
        }
        self.buf.extend_from_slice(b);
        Ok(b.len())
    }
    fn flush(&mut self) -> std::io::Result<()> {
        Ok(())
    }
}

thread_local! {
    static SINK_DELAY: std::cell::Cell<u64> = const { std::cell::Cell::new(0) };
}

fn exec(parser: &liquid::Parser, templates: &[liquid::Template], data: &[liquid::Object], op: Op) -> J {
    let delay = SINK_DELAY.with(|d| d.get());
    match op {
        Op::Render(i, j) if delay > 0 => {
            let mut w = SlowWriter { buf: Vec::new(), delay_us: delay, n: 0 };
            let r = templates[i].render_to(&mut w, &data[j]);
            outcome(r.map(|_| String::from_utf8_lossy(&w.buf).into_owned()))
        }
        Op::Render(i, j) => outcome(templates[i].render(&data[j])),
        Op::Parse(k) => json!({"ok": parser.parse(PARSE_SOURCES[k]).is_ok()}),
    }
}

pub fn main(args: &[String]) -> i32 {
    let mut out = String::new();
    let mut seed = 1u64;
    let mut runs = 100usize;
    let mut i = 0;
    while i < args.len() {
        match args[i].as_str() {
            "--out" => { out = args[i + 1].clone(); i += 2; }
            "--seed" => { seed = args[i + 1].parse().unwrap(); i += 2; }
            "--runs" => { runs = args[i + 1].parse().unwrap(); i += 2; }
            _ => i += 1,
        }
    }
    let mut rng = Rng::new(seed);
    let data = Arc::new(datas());
    // what every call returns when executed alone, on a fresh parser each time
    let mut alone: HashMap<String, J> = HashMap::new();
    for ti in 0..TEMPLATES.len() {
        for dj in 0..data.len() {
            let p = build(None, 0, "lazy");
            let t: Vec<liquid::Template> = TEMPLATES.iter().map(|s| p.parse(s).expect("template parses")).collect();
            alone.insert(format!("r{ti}.{dj}"), exec(&p, &t, &data, Op::Render(ti, dj)));
        }
    }
    for k in 0..PARSE_SOURCES.len() {
        let p = build(None, 0, "lazy");
        alone.insert(format!("p{k}"), exec(&p, &[], &data, Op::Parse(k)));
    }
    let alone = Arc::new(alone);
    let mut f = std::io::BufWriter::new(std::fs::File::create(&out).expect("out"));
    let (mut events, mut calls, mut misses, mut hung) = (0u64, 0u64, 0u64, 0u64);
    let mut samples = Vec::new();
    for run in 0..runs {
        let n = 2 + rng.below(15); // 2..16 threads
        let dwell = [0u64, 0, 50, 300, 1500][rng.below(5)];
        // most runs are short; one in eight keeps its threads alive for a long sequence (state that accumulates per thread)
        let long_run = rng.chance(1, 8);
        let per_thread = if long_run { 150 } else { 3 + rng.below(5) };
        let log: Log = Arc::new(Mutex::new(Vec::new()));
        let policy = if rng.chance(1, 3) { "ondemand" } else { "lazy" };
        let sink_delay = [0u64, 0, 20, 200][rng.below(4)];
        let parser = Arc::new(build(Some(log.clone()), dwell, policy));
        let templates: Arc<Vec<liquid::Template>> =
            Arc::new(TEMPLATES.iter().map(|s| parser.parse(s).expect("template parses")).collect());
        let barrier = Arc::new(Barrier::new(n));
        let (tx, rx) = std::sync::mpsc::channel::<usize>();
        let mut plans = Vec::new();
        for _ in 0..n {
            let mut plan = Vec::new();
            for _ in 0..per_thread {
                if rng.chance(1, 6) || (long_run && rng.chance(3, 4)) {
                    plan.push(Op::Parse(rng.below(PARSE_SOURCES.len())));
                } else {
                    plan.push(Op::Render(rng.below(TEMPLATES.len()), rng.below(data.len())));
                }
            }
            plans.push((plan, rng.below(300) as u64, rng.next()));
        }
        for (ti, (plan, skew, yseed)) in plans.into_iter().enumerate() {
            let (log, parser, templates, data, barrier, alone, tx) =
                (log.clone(), parser.clone(), templates.clone(), data.clone(), barrier.clone(), alone.clone(), tx.clone());
            std::thread::spawn(move || {
                let tid = ti + 1;
                TID.with(|t| t.set(tid));
                SINK_DELAY.with(|d| d.set(sink_delay));
                let mut yr = Rng::new(yseed);
                barrier.wait();
                if skew > 0 {
                    std::thread::sleep(std::time::Duration::from_micros(skew));
                }
                for (c, op) in plan.into_iter().enumerate() {
                    let key = match op { Op::Render(i, j) => format!("r{i}.{j}"), Op::Parse(k) => format!("p{k}") };
                    log.lock().unwrap().push(json!({"e": "Call", "t": format!("t{tid}"), "c": c, "op": key}));
                    let r = std::panic::catch_unwind(std::panic::AssertUnwindSafe(|| exec(&parser, &templates, &data, op)));
                    let res = r.unwrap_or(json!({"panic": true}));
                    log.lock().unwrap().push(json!({"e": "Return", "t": format!("t{tid}"), "c": c, "res": res, "alone": alone[&key]}));
                    if yr.chance(1, 3) {
                        std::thread::yield_now();
                    }
                }
                let _ = tx.send(tid);
            });
        }
        drop(tx);
        // watchdog: a deadlock shows up as Calls without their Returns
        let deadline = std::time::Instant::now() + std::time::Duration::from_secs(30);
        let mut finished = 0;
        while finished < n {
            let left = deadline.saturating_duration_since(std::time::Instant::now());
            match rx.recv_timeout(left) {
                Ok(_) => finished += 1,
                Err(_) => { hung += 1; break; }
            }
        }
        let evs = log.lock().unwrap().clone();
        let reset = json!({"e": "Reset", "run": run, "threads": n, "dwell_us": dwell, "policy": policy, "sink_delay_us": sink_delay});
        let _ = writeln!(f, "{}", reset);
        events += 1;
        for e in &evs {
            let _ = writeln!(f, "{}", e);
            events += 1;
            match e["e"].as_str() {
                Some("Call") => calls += 1,
                Some("Miss") => misses += 1,
                _ => {}
            }
        }
        if samples.len() < 2 && evs.len() > 8 {
            samples.push(json!({"threads": n, "first_events": evs.iter().take(8).collect::<Vec<_>>()}));
        }
        if finished < n {
            break; // hung threads hold the shared objects; stop recording here
        }
    }
    let _ = writeln!(f, "{}", json!({"e": "End"}));
    events += 1;
    let _ = f.flush();
    println!("TRACEINFO {}", json!({"traces": runs, "events": events, "cases": calls, "nontrivial": calls,
        "misses": misses, "hung_runs": hung, "samples": samples}));
    0
}
