//! Replay of `render` records: a program (AST), partial sources and caller
//! data chosen by TLC, with the outcome the specification (LiquidInterp)
//! defines.  Executed through the public `liquid` API.
use crate::ast;
use crate::val::dec_object;
use crate::Outcome;
use liquid::partials::{EagerCompiler, InMemorySource, LazyCompiler, OnDemandCompiler};
use serde_json::{json, Value as J};

pub const BROKEN_PARTIAL: &str = "{% if x %}unclosed";

pub fn partial_sources(parts: &J) -> Result<Vec<(String, String)>, String> {
    let mut v = Vec::new();
    if let Some(m) = parts.as_object() {
        for (name, p) in m {
            // a partial is given as source text (from-text corpora), as a program to print, or as "broken"
            let src = if let Some(t) = p.get("src") {
                crate::val::dec_text(t).ok_or("bad partial src")?
            } else if p["ok"] == true {
                ast::block(&p["body"])?
            } else {
                BROKEN_PARTIAL.to_string()
            };
            v.push((name.clone(), src));
        }
    }
    Ok(v)
}

pub fn build_parser(policy: &str, parts: &[(String, String)]) -> Result<liquid::Parser, String> {
    let mut src = InMemorySource::new();
    for (n, s) in parts {
        src.add(n.clone(), s.clone());
    }
    let b = liquid::ParserBuilder::with_stdlib();
    let r = match policy {
        "eager" => b.partials(EagerCompiler::new(src)).build(),
        "lazy" => b.partials(LazyCompiler::new(src)).build(),
        "ondemand" => b.partials(OnDemandCompiler::new(src)).build(),
        "none" => b.build(),
        other => return Err(format!("unknown policy {other}")),
    };
    r.map_err(|e| format!("building the parser failed: {e}"))
}

pub fn outcome_json(r: &Result<String, liquid::Error>) -> J {
    match r {
        Ok(s) => json!({"ok": true, "out": s}),
        Err(e) => json!({"ok": false, "msg": e.to_string()}),
    }
}

pub fn same_outcome(got: &Result<String, liquid::Error>, want: &J) -> bool {
    match got {
        Ok(s) => {
            want["ok"] == true
                && (want["anyout"] == true || crate::val::dec_text(&want["out"]).as_deref() == Some(s.as_str()))
        }
        Err(_) => want["ok"] == false || want["anyerr"] == true,
    }
}

pub fn run(rec: &J) -> Outcome {
    let nontrivial = rec.get("nt").and_then(|x| x.as_bool()).unwrap_or(true);
    let fail = |why: &str, extra: J| Outcome::fail(nontrivial, json!({"why": why, "info": extra}));
    let src = if rec.get("src").is_some() {
        match crate::val::dec_text(&rec["src"]) {
            Some(s) => s,
            None => return fail("harness: bad src", json!(null)),
        }
    } else {
        match ast::block(&rec["prog"]) {
            Ok(s) => s,
            Err(e) => return fail("harness: cannot print program", json!(e)),
        }
    };
    let parts = match partial_sources(&rec["parts"]) {
        Ok(p) => p,
        Err(e) => return fail("harness: cannot print partial", json!(e)),
    };
    let data = match dec_object(&rec["data"]) {
        Ok(d) => d,
        Err(e) => return fail("harness: cannot decode data", json!(e)),
    };
    let default_pol = vec![json!("eager")];
    let policies = rec.get("policies").and_then(|p| p.as_array()).unwrap_or(&default_pol);
    let want = &rec["expect"];
    let repeats = rec.get("repeat").and_then(|x| x.as_u64()).unwrap_or(1);
    for pol in policies {
        let pol = pol.as_str().unwrap_or("eager");
        let parser = match build_parser(pol, &parts) {
            Ok(p) => p,
            Err(e) => return fail("parser construction failed", json!({"policy": pol, "err": e, "src": src})),
        };
        let template = match parser.parse(&src) {
            Ok(t) => t,
            Err(e) => {
                if want["anyerr"] == true && !e.to_string().trim().is_empty() {
                    continue; // totality only: a rejection with a message is fine
                }
                return fail("generated template was rejected by the parser",
                            json!({"src": src, "err": e.to_string()}))
            }
        };
        for round in 0..repeats {
            let before = data.clone();
            let got = template.render(&data);
            if data != before {
                return fail("caller data object was modified", json!({"src": src}));
            }
            if !same_outcome(&got, want) {
                return fail("render outcome differs from LiquidInterp",
                    json!({"src": src, "parts": parts, "policy": pol, "round": round,
                           "got": outcome_json(&got), "want": want}));
            }
            // streaming and buffering render agree when the sink never fails
            let mut buf = Vec::new();
            let streamed = template.render_to(&mut buf, &data);
            match (&got, streamed) {
                (Ok(s), Ok(())) if s.as_bytes() == buf.as_slice() => {}
                (Err(_), Err(_)) => {}
                _ => return fail("render_to into a buffer differs from render", json!({"src": src})),
            }
        }
    }
    Outcome::ok(nontrivial)
}
